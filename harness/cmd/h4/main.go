// h4: FileSnapshotStore under strace (DESIGN.md section 4, H4).
//
// Parent mode: for every generated scenario (a sequence of Create / Write / Close / Cancel calls on a
// real FileSnapshotStore with some `retain`) it runs itself in child mode under `strace -f`,
// parses the exact ordered file-system syscalls the store issued, and
//
//	(i)  prints them, normalised, for comparison with the Lean model's program for that scenario;
//	(ii) materialises every crash image (crash after any syscall; namespace operations since the
//	     last fsync kept up to any point; data written since a file's last fsync kept or lost) in a
//	     scratch directory and runs the real NewFileSnapshotStore(...).List()/Open() on it.
//
// The Lean driver judges (i) against the model and (ii) against the property's Spec.
package main

import (
	"bufio"
	"bytes"
	"encoding/json"
	"flag"
	"fmt"
	"io"
	"math/rand"
	"os"
	"os/exec"
	"path/filepath"
	"regexp"
	"sort"
	"strconv"
	"strings"

	"github.com/hashicorp/raft"
)

type apiOp struct {
	kind string // C W X K   (create, write, close, cancel)
	sid  int    // scenario snapshot id
	idx  int
	term int
	n    int // bytes for W
}

func (o apiOp) tok() string {
	switch o.kind {
	case "C":
		return fmt.Sprintf("C %d %d %d", o.sid, o.idx, o.term)
	case "W":
		return fmt.Sprintf("W %d %d", o.sid, o.n)
	}
	return fmt.Sprintf("%s %d", o.kind, o.sid)
}

func payload(sid, n int) []byte {
	b := make([]byte, n)
	for i := range b {
		b[i] = byte('a' + (sid*7+i)%26)
	}
	return b
}

func mark(s string) { fmt.Fprintf(os.Stderr, "MARK %s\n", s) }

// ---- child: execute the scenario on the real store -------------------------------------------

func child(dir string, retain int, ops []apiOp) {
	store, err := raft.NewFileSnapshotStore(dir, retain, io.Discard)
	if err != nil {
		fmt.Fprintln(os.Stderr, "ERR newstore", err)
		os.Exit(3)
	}
	_, trans := raft.NewInmemTransport("a")
	sinks := map[int]raft.SnapshotSink{}
	mark("begin")
	for _, o := range ops {
		switch o.kind {
		case "C":
			s, err := store.Create(1, uint64(o.idx), uint64(o.term), raft.Configuration{}, 0, trans)
			if err != nil {
				mark(fmt.Sprintf("create-error %d", o.sid))
				continue
			}
			sinks[o.sid] = s
			mark(fmt.Sprintf("created %d %s", o.sid, s.ID()))
		case "W":
			if s := sinks[o.sid]; s != nil {
				_, _ = s.Write(payload(o.sid, o.n))
			}
		case "X":
			if s := sinks[o.sid]; s != nil {
				err := s.Close()
				mark(fmt.Sprintf("closed %d %v", o.sid, err == nil))
			}
		case "K":
			if s := sinks[o.sid]; s != nil {
				_ = s.Cancel()
				mark(fmt.Sprintf("cancelled %d", o.sid))
			}
		}
	}
	mark("end")
}

// ---- parent: strace parsing --------------------------------------------------------------------

type sys struct {
	kind string // mkdir creat write fsync rename unlink rmdir mark
	path string
	to   string
	data []byte
	text string
}

var (
	reOpen    = regexp.MustCompile(`^\d+\s+openat\(AT_FDCWD, "([^"]*)", ([A-Z_|0-9]+)(?:, 0[0-7]+)?\)\s+= (\d+)`)
	reOpenFd  = regexp.MustCompile(`^\d+\s+openat\((\d+), "([^"]*)", ([A-Z_|0-9]+)(?:, 0[0-7]+)?\)\s+= (\d+)`)
	reResumed = regexp.MustCompile(`^(\d+)\s+<\.\.\. \w+ resumed>(.*)$`)
	reWrite   = regexp.MustCompile(`^\d+\s+write\((\d+), "((?:[^"\\]|\\.)*)"(\.\.\.)?, (\d+)\)\s+= (\d+)`)
	reFsync   = regexp.MustCompile(`^\d+\s+fsync\((\d+)\)\s+= 0`)
	reClose   = regexp.MustCompile(`^\d+\s+close\((\d+)\)\s+= 0`)
	reRename  = regexp.MustCompile(`^\d+\s+renameat2?\(AT_FDCWD, "([^"]*)", AT_FDCWD, "([^"]*)"`)
	reRen2    = regexp.MustCompile(`^\d+\s+rename\("([^"]*)", "([^"]*)"\)\s+= 0`)
	reMkdir   = regexp.MustCompile(`^\d+\s+mkdirat\(AT_FDCWD, "([^"]*)", 0[0-7]+\)\s+= 0`)
	reUnlink  = regexp.MustCompile(`^\d+\s+unlinkat\(AT_FDCWD, "([^"]*)", (0|AT_REMOVEDIR)\)\s+= 0`)
	reUnl2    = regexp.MustCompile(`^\d+\s+unlinkat\((\d+), "([^"]*)", (0|AT_REMOVEDIR)\)\s+= 0`)
)

func unescape(s string) []byte {
	var out []byte
	for i := 0; i < len(s); i++ {
		if s[i] != '\\' {
			out = append(out, s[i])
			continue
		}
		i++
		switch s[i] {
		case 'n':
			out = append(out, '\n')
		case 't':
			out = append(out, '\t')
		case 'r':
			out = append(out, '\r')
		case '\\', '"':
			out = append(out, s[i])
		case 'x':
			v, _ := strconv.ParseUint(s[i+1:i+3], 16, 8)
			out = append(out, byte(v))
			i += 2
		default: // octal
			j := i
			for j < len(s) && j < i+3 && s[j] >= '0' && s[j] <= '7' {
				j++
			}
			v, _ := strconv.ParseUint(s[i:j], 8, 8)
			out = append(out, byte(v))
			i = j - 1
		}
	}
	return out
}

func parseTrace(file, root string) []sys {
	fh, _ := os.Open(file)
	defer fh.Close()
	sc := bufio.NewScanner(fh)
	sc.Buffer(make([]byte, 1<<20), 64<<20)
	fds := map[string]string{}
	var out []sys
	in := false
	pending := map[string]string{} // pid -> unfinished prefix
	for sc.Scan() {
		line := sc.Text()
		// stitch "<unfinished ...>" / "<... resumed>" pairs (strace -f splits concurrent syscalls)
		if i := strings.Index(line, " <unfinished ...>"); i >= 0 {
			pid := strings.Fields(line)[0]
			pending[pid] = line[:i]
			continue
		}
		if m := reResumed.FindStringSubmatch(line); m != nil {
			if pre, ok := pending[m[1]]; ok {
				delete(pending, m[1])
				line = pre + m[2]
			}
		}
		if m := reWrite.FindStringSubmatch(line); m != nil {
			data := unescape(m[2])
			if m[1] == "2" && bytes.HasPrefix(data, []byte("MARK ")) {
				t := strings.TrimSpace(string(data[5:]))
				if t == "begin" {
					in = true
				}
				out = append(out, sys{kind: "mark", text: t})
				continue
			}
			if p, ok := fds[m[1]]; ok && in {
				out = append(out, sys{kind: "write", path: p, data: data})
			}
			continue
		}
		if m := reOpen.FindStringSubmatch(line); m != nil {
			if strings.HasPrefix(m[1], root) {
				fds[m[3]] = m[1]
				if strings.Contains(m[2], "O_CREAT") && in {
					out = append(out, sys{kind: "creat", path: m[1]})
				}
			} else {
				delete(fds, m[3])
			}
			continue
		}
		if m := reOpenFd.FindStringSubmatch(line); m != nil {
			if p, ok := fds[m[1]]; ok {
				fds[m[4]] = filepath.Join(p, m[2])
			} else {
				delete(fds, m[4])
			}
			continue
		}
		if m := reClose.FindStringSubmatch(line); m != nil {
			delete(fds, m[1])
			continue
		}
		if !in {
			continue
		}
		if m := reFsync.FindStringSubmatch(line); m != nil {
			if p, ok := fds[m[1]]; ok {
				out = append(out, sys{kind: "fsync", path: p})
			}
		} else if m := reRename.FindStringSubmatch(line); m != nil {
			out = append(out, sys{kind: "rename", path: m[1], to: m[2]})
		} else if m := reRen2.FindStringSubmatch(line); m != nil {
			out = append(out, sys{kind: "rename", path: m[1], to: m[2]})
		} else if m := reMkdir.FindStringSubmatch(line); m != nil {
			if strings.HasPrefix(m[1], root) && m[1] != root {
				out = append(out, sys{kind: "mkdir", path: m[1]})
			}
		} else if m := reUnlink.FindStringSubmatch(line); m != nil {
			k := "unlink"
			if m[2] == "AT_REMOVEDIR" {
				k = "rmdir"
			}
			out = append(out, sys{kind: k, path: m[1]})
		} else if m := reUnl2.FindStringSubmatch(line); m != nil {
			if p, ok := fds[m[1]]; ok {
				k := "unlink"
				if m[3] == "AT_REMOVEDIR" {
					k = "rmdir"
				}
				out = append(out, sys{kind: k, path: filepath.Join(p, m[2])})
			}
		}
	}
	return out
}

// ---- crash images ------------------------------------------------------------------------------

type fileState struct {
	vol, dur []byte // page cache, disk
}

// materialise: namespace operations [0,nsCut) applied (journal prefix), content = durable copy, or
// volatile copy when keepData
func materialise(ops []sys, crashAt, nsCut int, keepData bool, root, dst string) {
	_ = os.RemoveAll(dst)
	_ = os.MkdirAll(dst, 0o755)
	files := map[string]*fileState{} // by path relative to root at creation time (renames move them)
	exists := map[string]bool{}
	dirs := map[string]bool{}
	rel := func(p string) string { r, _ := filepath.Rel(root, p); return r }
	for i := 0; i < crashAt; i++ {
		o := ops[i]
		p := rel(o.path)
		nsOK := i < nsCut
		switch o.kind {
		case "mkdir":
			if nsOK {
				dirs[p] = true
			}
		case "creat":
			if files[p] == nil {
				files[p] = &fileState{}
			}
			files[p].vol = nil // O_TRUNC
			if nsOK {
				exists[p] = true
				// truncation of an existing file reaches the disk with the namespace journal
				files[p].dur = nil
			}
		case "write":
			if f := files[p]; f != nil {
				f.vol = append(f.vol, o.data...)
			}
		case "fsync":
			if f := files[p]; f != nil {
				f.dur = append([]byte{}, f.vol...)
			}
		case "rename":
			if nsOK {
				q := rel(o.to)
				for k := range dirs {
					if k == p {
						delete(dirs, k)
						dirs[q] = true
					}
				}
				for k, v := range files {
					if strings.HasPrefix(k, p+"/") {
						nk := q + k[len(p):]
						files[nk] = v
						delete(files, k)
						if exists[k] {
							delete(exists, k)
							exists[nk] = true
						}
					}
				}
			}
		case "unlink":
			if nsOK {
				delete(exists, p)
			}
		case "rmdir":
			if nsOK {
				delete(dirs, p)
			}
		}
	}
	for d := range dirs {
		_ = os.MkdirAll(filepath.Join(dst, d), 0o755)
	}
	for p := range exists {
		f := files[p]
		if f == nil {
			continue
		}
		if !dirs[filepath.Dir(p)] {
			continue
		}
		data := f.dur
		if keepData {
			data = f.vol
		}
		_ = os.WriteFile(filepath.Join(dst, p), data, 0o644)
	}
}

type stats struct {
	Engine   string         `json:"engine"`
	Cases    int            `json:"cases"`
	Distinct int            `json:"distinct_nontrivial"`
	Rule     string         `json:"rule"`
	Hist     map[string]int `json:"histogram"`
	Samples  []string       `json:"samples"`
}

func main() {
	engine := flag.String("engine", "filesnap", "")
	seed := flag.Int64("seed", 1, "")
	n := flag.Int("n", 20, "")
	out := flag.String("out", "", "")
	thorough := flag.Bool("thorough", false, "")
	isChild := flag.Bool("child", false, "")
	dir := flag.String("dir", "", "")
	retain := flag.Int("retain", 1, "")
	scen := flag.String("scenario", "", "")
	flag.Parse()
	_ = engine
	if *isChild {
		var ops []apiOp
		f := strings.Fields(*scen)
		for i := 0; i < len(f); {
			switch f[i] {
			case "C":
				a, _ := strconv.Atoi(f[i+1])
				b, _ := strconv.Atoi(f[i+2])
				c, _ := strconv.Atoi(f[i+3])
				ops = append(ops, apiOp{kind: "C", sid: a, idx: b, term: c})
				i += 4
			case "W":
				a, _ := strconv.Atoi(f[i+1])
				b, _ := strconv.Atoi(f[i+2])
				ops = append(ops, apiOp{kind: "W", sid: a, n: b})
				i += 3
			default:
				a, _ := strconv.Atoi(f[i+1])
				ops = append(ops, apiOp{kind: f[i], sid: a})
				i += 2
			}
		}
		child(*dir, *retain, ops)
		return
	}
	self, _ := os.Executable()
	work := filepath.Join(filepath.Dir(*out), "h4work")
	_ = os.MkdirAll(work, 0o755)
	fh, _ := os.Create(*out)
	w := bufio.NewWriter(fh)
	st := &stats{Engine: "filesnap", Hist: map[string]int{}}
	st.Rule = "random scenarios on a real FileSnapshotStore run under strace -f: 1..4 snapshots with arbitrary (term, index) order, retain 1..3, writes of 0..3 chunks (0..200 bytes, one of 70000 to pass the 64 KiB buffer), each sink closed or cancelled or abandoned, sinks interleaved; then EVERY crash image: crash after each syscall x journal cut at each point since the last fsync x un-synced data kept/lost; the real List()/Open() run on each image; non-trivial = an image lists at least one snapshot"
	rng := rand.New(rand.NewSource(*seed))
	for k := 0; k < *n; k++ {
		// ---- scenario
		nsnap := 1 + rng.Intn(3)
		if *thorough {
			nsnap = 1 + rng.Intn(4)
		}
		rt := 1 + rng.Intn(3)
		var ops []apiOp
		type plan struct{ ops []apiOp }
		var plans []plan
		used := map[[2]int]bool{}
		for s := 1; s <= nsnap; s++ {
			var idx, term int
			for {
				idx, term = 1+rng.Intn(30), 1+rng.Intn(4)
				if !used[[2]int{idx, term}] {
					used[[2]int{idx, term}] = true
					break
				}
			}
			p := plan{ops: []apiOp{{kind: "C", sid: s, idx: idx, term: term}}}
			for j, m := 0, rng.Intn(4); j < m; j++ {
				sz := rng.Intn(200)
				if rng.Intn(15) == 0 {
					sz = 70000
				}
				p.ops = append(p.ops, apiOp{kind: "W", sid: s, n: sz})
			}
			switch x := rng.Intn(10); {
			case x < 7:
				p.ops = append(p.ops, apiOp{kind: "X", sid: s})
			case x < 9:
				p.ops = append(p.ops, apiOp{kind: "K", sid: s})
			}
			plans = append(plans, p)
		}
		// interleave (mostly sequential)
		for len(plans) > 0 {
			i := 0
			if rng.Intn(4) == 0 {
				i = rng.Intn(len(plans))
			}
			ops = append(ops, plans[i].ops[0])
			plans[i].ops = plans[i].ops[1:]
			if len(plans[i].ops) == 0 {
				plans = append(plans[:i], plans[i+1:]...)
			}
		}
		var toks []string
		for _, o := range ops {
			toks = append(toks, o.tok())
		}
		scenario := strings.Join(toks, " ")
		// ---- run under strace
		root := filepath.Join(work, fmt.Sprintf("s%d", k))
		_ = os.RemoveAll(root)
		_ = os.MkdirAll(root, 0o755)
		tr := filepath.Join(work, fmt.Sprintf("trace%d.txt", k))
		cmd := exec.Command("strace", "-f", "-q", "-s", "200000", "-o", tr,
			"-e", "trace=openat,write,fsync,fdatasync,close,rename,renameat,renameat2,mkdir,mkdirat,unlink,unlinkat,rmdir",
			self, "-child", "-dir", root, "-retain", strconv.Itoa(rt), "-scenario", scenario)
		cmd.Stderr = io.Discard
		if err := cmd.Run(); err != nil {
			fmt.Fprintln(os.Stderr, "strace run failed:", err)
			os.Exit(2)
		}
		snapRoot := filepath.Join(root, "snapshots")
		sysops := parseTrace(tr, snapRoot)
		_ = os.Remove(tr)
		// ids: sid -> directory name; closed-at / cancelled-at positions
		name := map[int]string{}
		sidOf := map[string]int{}
		var fsops []sys
		closedAt := map[int]int{}
		cancelledAt := map[int]int{}
		for _, o := range sysops {
			if o.kind == "mark" {
				f := strings.Fields(o.text)
				switch f[0] {
				case "created":
					s, _ := strconv.Atoi(f[1])
					name[s] = f[2]
					sidOf[f[2]] = s
				case "closed":
					s, _ := strconv.Atoi(f[1])
					if f[2] == "true" {
						closedAt[s] = len(fsops)
					}
				case "cancelled":
					s, _ := strconv.Atoi(f[1])
					cancelledAt[s] = len(fsops)
				}
				continue
			}
			fsops = append(fsops, o)
		}
		sidFromPath := func(p string) int {
			r, _ := filepath.Rel(snapRoot, p)
			d := strings.Split(r, "/")[0]
			d = strings.TrimSuffix(d, ".tmp")
			return sidOf[d]
		}
		// ---- (i) normalised labels
		var labels []string
		for _, o := range fsops {
			base := filepath.Base(o.path)
			s := sidFromPath(o.path)
			switch o.kind {
			case "mkdir":
				labels = append(labels, fmt.Sprintf("mk %d", s))
			case "creat":
				if base == "meta.json" {
					labels = append(labels, fmt.Sprintf("cm %d", s))
				} else {
					labels = append(labels, fmt.Sprintf("cs %d", s))
				}
			case "write":
				if base == "meta.json" {
					labels = append(labels, fmt.Sprintf("wm %d", s))
				} else {
					labels = append(labels, fmt.Sprintf("ws %d", s))
				}
			case "fsync":
				if o.path == snapRoot {
					labels = append(labels, "fp 0")
				} else if base == "meta.json" {
					labels = append(labels, fmt.Sprintf("fm %d", s))
				} else {
					labels = append(labels, fmt.Sprintf("fs %d", s))
				}
			case "rename":
				labels = append(labels, fmt.Sprintf("rn %d", s))
			case "unlink":
				if base == "meta.json" {
					labels = append(labels, fmt.Sprintf("um %d", s))
				} else {
					labels = append(labels, fmt.Sprintf("us %d", s))
				}
			case "rmdir":
				labels = append(labels, fmt.Sprintf("rd %d", s))
			}
		}
		// ---- (ii) crash images
		img := filepath.Join(work, fmt.Sprintf("img%d", k))
		var obs []string
		listedSomething := false
		type key struct {
			c, ns int
			keep  bool
		}
		for crashAt := 0; crashAt <= len(fsops); crashAt++ {
			lastSync := 0
			for i := 0; i < crashAt; i++ {
				if fsops[i].kind == "fsync" {
					lastSync = i + 1
				}
			}
			for nsCut := lastSync; nsCut <= crashAt; nsCut++ {
				for _, keep := range []bool{true, false} {
					materialise(fsops, crashAt, nsCut, keep, root, img)
					store, err := raft.NewFileSnapshotStore(img, rt, io.Discard)
					if err != nil {
						obs = append(obs, fmt.Sprintf("%d %d %d E 0", crashAt, nsCut, b2i(keep)))
						continue
					}
					metas, err := store.List()
					if err != nil {
						obs = append(obs, fmt.Sprintf("%d %d %d E 0", crashAt, nsCut, b2i(keep)))
						continue
					}
					var ls []string
					for _, m := range metas {
						s := sidOf[m.ID]
						okc := 0
						_, rc, err := store.Open(m.ID)
						if err == nil {
							data, _ := io.ReadAll(rc)
							rc.Close()
							// expected bytes: everything written to that sink
							var want []byte
							for _, o := range ops {
								if o.kind == "W" && o.sid == s {
									want = append(want, payload(s, o.n)...)
								}
							}
							if bytes.Equal(data, want) && m.Size == int64(len(want)) {
								okc = 1
							} else {
								okc = 2 // opened but wrong bytes
							}
						}
						ls = append(ls, fmt.Sprintf("%d %d %d %d", s, m.Index, m.Term, okc))
						listedSomething = true
					}
					obs = append(obs, fmt.Sprintf("%d %d %d L %d %s", crashAt, nsCut, b2i(keep), len(ls), strings.Join(ls, " ")))
					st.Hist["crash-images"]++
				}
			}
		}
		// ---- (iii) damaged media: on the image in which everything is durable, the state file of every
		// listed snapshot is damaged behind the store's back (cut short, one bit flipped, a block
		// zeroed, a byte appended) with its meta.json intact: Open must fail or return the bytes written
		var dmg []string
		materialise(fsops, len(fsops), len(fsops), true, root, img)
		if store, err := raft.NewFileSnapshotStore(img, rt, io.Discard); err == nil {
			metas, _ := store.List()
			for _, m := range metas {
				s := sidOf[m.ID]
				sp := filepath.Join(img, "snapshots", m.ID, "state.bin")
				orig, err := os.ReadFile(sp)
				if err != nil {
					continue
				}
				var want []byte
				for _, o := range ops {
					if o.kind == "W" && o.sid == s {
						want = append(want, payload(s, o.n)...)
					}
				}
				for variant := 0; variant < 4; variant++ {
					d := append([]byte{}, orig...)
					switch variant {
					case 0:
						d = d[:len(d)/2]
					case 1:
						if len(d) > 0 {
							d[len(d)/3] ^= 0x10
						}
					case 2:
						for i := len(d) / 2; i < len(d) && i < len(d)/2+64; i++ {
							d[i] = 0
						}
					case 3:
						d = append(d, 0x5a)
					}
					if bytes.Equal(d, orig) {
						continue
					}
					_ = os.WriteFile(sp, d, 0o644)
					okc := 0
					if _, rc, err := store.Open(m.ID); err == nil {
						data, _ := io.ReadAll(rc)
						rc.Close()
						if bytes.Equal(data, want) {
							okc = 1
						} else {
							okc = 2
						}
					}
					dmg = append(dmg, fmt.Sprintf("%d %d %d", s, variant, okc))
					st.Hist["damaged-state-files"]++
				}
				_ = os.WriteFile(sp, orig, 0o644)
			}
		}
		_ = os.RemoveAll(img)
		_ = os.RemoveAll(root)
		// closed / cancelled positions
		var cl []string
		var sids []int
		for s := range closedAt {
			sids = append(sids, s)
		}
		sort.Ints(sids)
		for _, s := range sids {
			cl = append(cl, fmt.Sprintf("%d %d", s, closedAt[s]))
		}
		var ca []string
		sids = nil
		for s := range cancelledAt {
			sids = append(sids, s)
		}
		sort.Ints(sids)
		for _, s := range sids {
			ca = append(ca, fmt.Sprintf("%d %d", s, cancelledAt[s]))
		}
		caseLine := fmt.Sprintf("R %d OPS %d %s", rt, len(ops), scenario)
		implLine := fmt.Sprintf("T %d %s CL %d %s CA %d %s I %d %s DM %d %s", len(labels), strings.Join(labels, " "), len(closedAt), strings.Join(cl, " "),
			len(cancelledAt), strings.Join(ca, " "), len(obs), strings.Join(obs, " "), len(dmg), strings.Join(dmg, " "))
		fmt.Fprintln(w, strings.Join(strings.Fields(caseLine), " "))
		fmt.Fprintln(w, strings.Join(strings.Fields(implLine), " "))
		st.Cases++
		if listedSomething {
			st.Distinct++
		}
		st.Hist[fmt.Sprintf("snapshots=%d", nsnap)]++
		if len(st.Samples) < 3 {
			st.Samples = append(st.Samples, caseLine+" => trace: "+strings.Join(labels, " "))
		}
	}
	w.Flush()
	fh.Close()
	_ = os.RemoveAll(work)
	js, _ := json.MarshalIndent(st, "", " ")
	_ = os.WriteFile(*out+".stats.json", js, 0o644)
}

func b2i(b bool) int {
	if b {
		return 1
	}
	return 0
}
