// h5: NetworkTransport over an in-memory StreamLayer with a byte recorder and a fault injector
// (DESIGN.md section 4, H5).  Two real NetworkTransports; generated messages of every RPC type;
// for AppendEntries the recorded request / response bytes are handed to the Lean driver, which
// compares them with the proved wire model (encode / decode); for every exchange the harness
// records whether the handler saw exactly what was sent and the caller got exactly what the
// handler produced; pipelines: order and pairing of completed futures; connection faults: the
// caller must get an error, never somebody else's response.
package main

import (
	"bufio"
	"bytes"
	"encoding/json"
	"errors"
	"flag"
	"fmt"
	"io"
	"math/rand"
	"net"
	"os"
	"reflect"
	"strings"
	"sync"
	"time"

	"github.com/hashicorp/raft"
)

// ---- stream layer ----------------------------------------------------------------------------

type recConn struct {
	net.Conn
	mu        *sync.Mutex
	out, in   *bytes.Buffer
	failAfter *int // bytes written until the connection is cut (-1 = never)
}

func (c *recConn) Write(p []byte) (int, error) {
	c.mu.Lock()
	fa := *c.failAfter
	c.mu.Unlock()
	if fa >= 0 {
		if fa < len(p) {
			if fa > 0 {
				_, _ = c.Conn.Write(p[:fa])
			}
			c.mu.Lock()
			*c.failAfter = 0
			c.mu.Unlock()
			_ = c.Conn.Close()
			return fa, errors.New("injected connection failure")
		}
		c.mu.Lock()
		*c.failAfter = fa - len(p)
		c.mu.Unlock()
	}
	n, err := c.Conn.Write(p)
	c.mu.Lock()
	c.out.Write(p[:n])
	c.mu.Unlock()
	return n, err
}

func (c *recConn) Read(p []byte) (int, error) {
	n, err := c.Conn.Read(p)
	c.mu.Lock()
	c.in.Write(p[:n])
	c.mu.Unlock()
	return n, err
}

type pipeLayer struct {
	addr   string
	accept chan net.Conn
	peers  map[string]*pipeLayer
	closed chan struct{}
	// recording of the dialled side
	mu        sync.Mutex
	out, in   bytes.Buffer
	failAfter int
	dials     int
	buffered  bool // the network between the two ends holds bytes in transit (as a socket buffer does)
}

// pump moves bytes from src to dst through an unbounded queue, so that a write at one end never
// waits for the reader at the other end
func pump(src, dst net.Conn) {
	q := make(chan []byte, 4096)
	go func() {
		for b := range q {
			if _, err := dst.Write(b); err != nil {
				break
			}
		}
		_ = dst.Close()
		_ = src.Close()
	}()
	buf := make([]byte, 32*1024)
	for {
		n, err := src.Read(buf)
		if n > 0 {
			q <- append([]byte{}, buf[:n]...)
		}
		if err != nil {
			close(q)
			return
		}
	}
}

type pipeAddr string

func (a pipeAddr) Network() string { return "pipe" }
func (a pipeAddr) String() string  { return string(a) }

func (l *pipeLayer) Accept() (net.Conn, error) {
	select {
	case c := <-l.accept:
		return c, nil
	case <-l.closed:
		return nil, errors.New("closed")
	}
}
func (l *pipeLayer) Close() error   { return nil }
func (l *pipeLayer) Addr() net.Addr { return pipeAddr(l.addr) }
func (l *pipeLayer) Dial(address raft.ServerAddress, timeout time.Duration) (net.Conn, error) {
	p, ok := l.peers[string(address)]
	if !ok {
		return nil, errors.New("no such peer")
	}
	a, b := net.Pipe()
	if l.buffered {
		// a <-> a2  ==pumps==  b2 <-> b
		a2, b2 := b, net.Conn(nil)
		b2, b = net.Pipe()
		go pump(a2, b2)
		go pump(b2, a2)
	}
	select {
	case p.accept <- b:
	case <-time.After(timeout):
		return nil, errors.New("dial timeout")
	}
	l.mu.Lock()
	l.dials++
	l.mu.Unlock()
	return &recConn{Conn: a, mu: &l.mu, out: &l.out, in: &l.in, failAfter: &l.failAfter}, nil
}

func (l *pipeLayer) take() (out, in []byte) {
	l.mu.Lock()
	defer l.mu.Unlock()
	out = append([]byte{}, l.out.Bytes()...)
	in = append([]byte{}, l.in.Bytes()...)
	l.out.Reset()
	l.in.Reset()
	return
}

// ---- generators --------------------------------------------------------------------------------

var rng *rand.Rand

func rbytes() []byte {
	switch rng.Intn(7) {
	case 0:
		return nil
	case 1:
		return []byte{}
	case 2:
		b := make([]byte, 31+rng.Intn(3))
		rng.Read(b)
		return b
	case 3:
		b := make([]byte, 250+rng.Intn(20))
		rng.Read(b)
		return b
	case 4:
		b := make([]byte, 65530+rng.Intn(10))
		rng.Read(b)
		return b
	default:
		b := make([]byte, 1+rng.Intn(6))
		rng.Read(b)
		return b
	}
}

func ru64() uint64 {
	switch rng.Intn(7) {
	case 0:
		return uint64(rng.Intn(128))
	case 1:
		return uint64(127 + rng.Intn(3))
	case 2:
		return uint64(255 + rng.Intn(3))
	case 3:
		return uint64(65535 + rng.Intn(3))
	case 4:
		return uint64(4294967295) + uint64(rng.Intn(3))
	case 5:
		return rng.Uint64()
	default:
		return uint64(rng.Intn(100000))
	}
}

func hdr() raft.RPCHeader {
	return raft.RPCHeader{ProtocolVersion: raft.ProtocolVersion(rng.Intn(4)), ID: rbytes(), Addr: rbytes()}
}

func bytesTok(b []byte) string {
	if b == nil {
		return "N"
	}
	p := []string{"B", fmt.Sprint(len(b))}
	for _, x := range b {
		p = append(p, fmt.Sprint(x))
	}
	return strings.Join(p, " ")
}

func rawTok(b []byte) string {
	p := []string{fmt.Sprint(len(b))}
	for _, x := range b {
		p = append(p, fmt.Sprint(x))
	}
	return strings.Join(p, " ")
}

func genAE() *raft.AppendEntriesRequest {
	req := &raft.AppendEntriesRequest{RPCHeader: hdr(), Term: ru64(), Leader: rbytes(), PrevLogEntry: ru64(), PrevLogTerm: ru64(), LeaderCommitIndex: ru64()}
	if rng.Intn(5) != 0 {
		m := rng.Intn(4)
		if rng.Intn(10) == 0 {
			m = 15 + rng.Intn(3)
		}
		req.Entries = []*raft.Log{}
		for i := 0; i < m; i++ {
			tm := time.Time{}
			if rng.Intn(3) != 0 {
				tm = time.Unix(int64(rng.Intn(2000000000)), int64(rng.Intn(1000000000))).UTC()
			}
			req.Entries = append(req.Entries, &raft.Log{Index: ru64(), Term: ru64(), Type: raft.LogType(rng.Intn(6)), Data: rbytes(), Extensions: rbytes(), AppendedAt: tm})
		}
	}
	return req
}

func aeReqTok(r *raft.AppendEntriesRequest) string {
	p := []string{bytesTok(r.Addr), bytesTok(r.ID), bytesTok(r.Leader), fmt.Sprint(r.LeaderCommitIndex), fmt.Sprint(r.PrevLogEntry), fmt.Sprint(r.PrevLogTerm), fmt.Sprint(int(r.ProtocolVersion)), fmt.Sprint(r.Term)}
	if r.Entries == nil {
		p = append(p, "N")
	} else {
		p = append(p, "E", fmt.Sprint(len(r.Entries)))
		for _, l := range r.Entries {
			sec, nsec := int64(0), 0
			if !l.AppendedAt.IsZero() {
				sec, nsec = l.AppendedAt.Unix()+62135596800, l.AppendedAt.Nanosecond()
			}
			p = append(p, fmt.Sprint(l.Index), fmt.Sprint(l.Term), fmt.Sprint(int(l.Type)), bytesTok(l.Data), bytesTok(l.Extensions), fmt.Sprint(sec), fmt.Sprint(nsec))
		}
	}
	return strings.Join(p, " ")
}

func aeRespTok(r *raft.AppendEntriesResponse) string {
	return strings.Join([]string{bytesTok(r.Addr), bytesTok(r.ID), fmt.Sprint(r.LastLog), fmt.Sprint(b2i(r.NoRetryBackoff)), fmt.Sprint(int(r.ProtocolVersion)), fmt.Sprint(b2i(r.Success)), fmt.Sprint(r.Term)}, " ")
}

func b2i(b bool) int {
	if b {
		return 1
	}
	return 0
}

func logsEqual(a, b []*raft.Log) bool {
	if (a == nil) != (b == nil) || len(a) != len(b) {
		return false
	}
	for i := range a {
		x, y := *a[i], *b[i]
		if !x.AppendedAt.Equal(y.AppendedAt) {
			return false
		}
		x.AppendedAt, y.AppendedAt = time.Time{}, time.Time{}
		if !reflect.DeepEqual(x, y) {
			return false
		}
	}
	return true
}

func aeEqual(a, b *raft.AppendEntriesRequest) bool {
	x, y := *a, *b
	if !logsEqual(x.Entries, y.Entries) {
		return false
	}
	x.Entries, y.Entries = nil, nil
	return reflect.DeepEqual(x, y)
}

type stats struct {
	Engine   string         `json:"engine"`
	Cases    int            `json:"cases"`
	Distinct int            `json:"distinct_nontrivial"`
	Rule     string         `json:"rule"`
	Hist     map[string]int `json:"histogram"`
	Samples  []string       `json:"samples"`
}

func main() {
	seed := flag.Int64("seed", 1, "")
	n := flag.Int("n", 200, "")
	out := flag.String("out", "", "")
	_ = flag.String("engine", "wire", "")
	_ = flag.Bool("thorough", false, "")
	flag.Parse()
	rng = rand.New(rand.NewSource(*seed))
	la := &pipeLayer{addr: "A", accept: make(chan net.Conn, 16), peers: map[string]*pipeLayer{}, closed: make(chan struct{}), failAfter: -1}
	lb := &pipeLayer{addr: "B", accept: make(chan net.Conn, 16), peers: map[string]*pipeLayer{}, closed: make(chan struct{}), failAfter: -1}
	la.peers["B"] = lb
	lb.peers["A"] = la
	tA := raft.NewNetworkTransport(la, 2, 3*time.Second, io.Discard)
	tB := raft.NewNetworkTransport(lb, 2, 3*time.Second, io.Discard)
	defer tA.Close()
	defer tB.Close()
	// the same pair again with MsgpackUseNewTimeFormat on one or both ends (a rolling change of the
	// option): N sends, M receives, in the new time format
	ln := &pipeLayer{addr: "N", accept: make(chan net.Conn, 16), peers: map[string]*pipeLayer{}, closed: make(chan struct{}), failAfter: -1}
	lm := &pipeLayer{addr: "M", accept: make(chan net.Conn, 16), peers: map[string]*pipeLayer{}, closed: make(chan struct{}), failAfter: -1}
	ln.peers["B"], ln.peers["M"], la.peers["M"] = lb, lm, lm
	tN := raft.NewNetworkTransportWithConfig(&raft.NetworkTransportConfig{Stream: ln, MaxPool: 2, Timeout: 3 * time.Second, MsgpackUseNewTimeFormat: true})
	tM := raft.NewNetworkTransportWithConfig(&raft.NetworkTransportConfig{Stream: lm, MaxPool: 2, Timeout: 3 * time.Second, MsgpackUseNewTimeFormat: true})
	defer tN.Close()
	defer tM.Close()
	// a sender with a short timeout and room for several pipelined requests in flight
	lp := &pipeLayer{addr: "P", accept: make(chan net.Conn, 16), peers: map[string]*pipeLayer{}, closed: make(chan struct{}), failAfter: -1, buffered: true}
	lp.peers["B"] = lb
	tP := raft.NewNetworkTransportWithConfig(&raft.NetworkTransportConfig{Stream: lp, MaxPool: 2, Timeout: 150 * time.Millisecond, MaxRPCsInFlight: 8})
	defer tP.Close()
	// responder on B: script set per exchange
	type script struct {
		resp  interface{}
		err   error
		delay time.Duration
	}
	var smu sync.Mutex
	var scripts []script
	var received []interface{}
	var bodies [][]byte
	serve := func(ch <-chan raft.RPC) {
		for rpc := range ch {
			smu.Lock()
			var sc script
			if len(scripts) > 0 {
				sc = scripts[0]
				scripts = scripts[1:]
			}
			received = append(received, rpc.Command)
			if rpc.Reader != nil {
				b, _ := io.ReadAll(rpc.Reader)
				bodies = append(bodies, b)
			}
			smu.Unlock()
			if sc.delay > 0 {
				time.Sleep(sc.delay)
			}
			rpc.Respond(sc.resp, sc.err)
		}
	}
	go serve(tB.Consumer())
	go serve(tM.Consumer())
	fh, _ := os.Create(*out)
	w := bufio.NewWriter(fh)
	st := &stats{Engine: "wire", Hist: map[string]int{}}
	st.Rule = "two real NetworkTransports over net.Pipe with a byte recorder: AppendEntries 37% + 8% between transports whose MsgpackUseNewTimeFormat options differ or are both set (byte slices nil/empty/around the fixstr-str16 and 64 KiB boundaries, integers around every width boundary, 0..3 or 15..17 entries, zero and non-zero times, response with or without an error string), pipelines of 2..8 AppendEntries with random handler delays 15%, pipelines (8 requests in flight allowed, sender timeout 150 ms) whose oldest request times out with 2..5 more in flight behind it 4%, RequestVote / RequestPreVote / TimeoutNow 20%, InstallSnapshot with a streamed body of 0..100000 bytes 10%, connection cut after k bytes of the request 10%; non-trivial = a request with at least one entry or a body, or a pipeline"
	take := func() ([]interface{}, [][]byte) {
		smu.Lock()
		defer smu.Unlock()
		r, b := received, bodies
		received, bodies = nil, nil
		return r, b
	}
	for k := 0; k < *n; k++ {
		la.take()
		take()
		x := rng.Intn(100)
		switch {
		case x < 8: // AppendEntries between transports whose time-format options differ (or are both new)
			req := genAE()
			if len(req.Entries) == 0 || rng.Intn(2) == 0 {
				req.Entries = append(req.Entries, &raft.Log{Index: ru64(), Term: ru64(), Data: rbytes(), AppendedAt: time.Unix(int64(rng.Intn(1<<31)), int64(rng.Intn(1000000000))).UTC()})
			}
			want := &raft.AppendEntriesResponse{RPCHeader: hdr(), Term: ru64(), LastLog: ru64(), Success: rng.Intn(2) == 0}
			smu.Lock()
			scripts = []script{{resp: want}}
			smu.Unlock()
			got := &raft.AppendEntriesResponse{}
			var err error
			combo := rng.Intn(3)
			switch combo {
			case 0:
				err = tN.AppendEntries("B", "B", req, got) // new format -> default receiver
			case 1:
				err = tA.AppendEntries("M", "M", req, got) // default -> new-format receiver
			default:
				err = tN.AppendEntries("M", "M", req, got)
			}
			rec, _ := take()
			recvOK := len(rec) == 1
			if recvOK {
				r, ok := rec[0].(*raft.AppendEntriesRequest)
				recvOK = ok && aeEqual(r, req)
			}
			respOK := err == nil && reflect.DeepEqual(got, want)
			fmt.Fprintf(w, "OT %d\n%d %d\n", 10+combo, b2i(recvOK), b2i(respOK))
			st.Hist[fmt.Sprintf("append-entries-mixed-time-format-%d", combo)]++
			st.Distinct++
		case x < 45: // single AppendEntries
			req := genAE()
			want := &raft.AppendEntriesResponse{RPCHeader: hdr(), Term: ru64(), LastLog: ru64(), Success: rng.Intn(2) == 0, NoRetryBackoff: rng.Intn(2) == 0}
			var herr error
			if rng.Intn(5) == 0 {
				herr = errors.New(strings.Repeat("e", 1+rng.Intn(40)))
			}
			smu.Lock()
			scripts = []script{{resp: want, err: herr}}
			smu.Unlock()
			got := &raft.AppendEntriesResponse{}
			err := tA.AppendEntries("B", "B", req, got)
			rec, _ := take()
			reqBytes, respBytes := la.take()
			recvOK := len(rec) == 1
			if recvOK {
				r, ok := rec[0].(*raft.AppendEntriesRequest)
				recvOK = ok && aeEqual(r, req)
			}
			respOK := false
			errStr := ""
			if herr != nil {
				respOK = err != nil && err.Error() == herr.Error()
				errStr = herr.Error()
			} else {
				respOK = err == nil && reflect.DeepEqual(got, want)
			}
			fmt.Fprintf(w, "AE %s R %s ERR %s\n", aeReqTok(req), aeRespTok(want), bytesTok([]byte(errStr)))
			fmt.Fprintf(w, "%d %d REQ %s RESP %s\n", b2i(recvOK), b2i(respOK), rawTok(reqBytes), rawTok(respBytes))
			st.Hist["append-entries"]++
			if len(req.Entries) > 0 {
				st.Distinct++
			}
		case x < 60: // pipeline
			pl, err := tA.AppendEntriesPipeline("B", "B")
			if err != nil {
				fmt.Fprintf(w, "PL 0\n0 0 pipeline-error\n")
				break
			}
			m := 2 + rng.Intn(7)
			var wants []*raft.AppendEntriesResponse
			smu.Lock()
			scripts = nil
			for i := 0; i < m; i++ {
				wr := &raft.AppendEntriesResponse{RPCHeader: raft.RPCHeader{ProtocolVersion: 3}, Term: 7, LastLog: uint64(1000 + i), Success: true}
				wants = append(wants, wr)
				scripts = append(scripts, script{resp: wr, delay: time.Duration(rng.Intn(3)) * time.Millisecond})
			}
			smu.Unlock()
			okOrder := true
			doneC := make(chan struct{})
			go func() { // the consumer runs while requests are being sent (the pipeline applies back-pressure)
				defer close(doneC)
				for i := 0; i < m; i++ {
					select {
					case f := <-pl.Consumer():
						if f.Error() != nil || f.Request().PrevLogEntry != uint64(i) || f.Response().LastLog != uint64(1000+i) {
							okOrder = false
						}
					case <-time.After(30 * time.Second):
						okOrder = false
						return
					}
				}
			}()
			for i := 0; i < m; i++ {
				rq := &raft.AppendEntriesRequest{RPCHeader: raft.RPCHeader{ProtocolVersion: 3}, Term: 7, PrevLogEntry: uint64(i)}
				_, _ = pl.AppendEntries(rq, &raft.AppendEntriesResponse{})
			}
			<-doneC
			_ = pl.Close()
			take()
			fmt.Fprintf(w, "PL %d\n%d %d\n", m, b2i(okOrder), b2i(okOrder))
			st.Hist["pipeline"]++
			st.Distinct++
		case x < 64: // a pipeline whose oldest request times out with several more in flight behind it
			pl, err := tP.AppendEntriesPipeline("B", "B")
			if err != nil {
				fmt.Fprintf(w, "PF 0\n0 0 pipeline-error\n")
				break
			}
			m := 3 + rng.Intn(4)
			// which request the receiver stalls on: the oldest, or (half the time) a later one - then the
			// answers to the requests before it are not to be held back behind it
			stall := 0
			if rng.Intn(2) == 0 {
				stall = 1 + rng.Intn(m-1)
			}
			smu.Lock()
			scripts = nil
			for i := 0; i < m; i++ {
				wr := &raft.AppendEntriesResponse{RPCHeader: raft.RPCHeader{ProtocolVersion: 3}, Term: 7, LastLog: uint64(2000 + i), Success: true}
				d := time.Duration(0)
				if i == stall {
					d = 400 * time.Millisecond // longer than the sender's timeout
				} else if i == 0 {
					d = 20 * time.Millisecond // the later requests have arrived by the time this one is answered
				}
				scripts = append(scripts, script{resp: wr, delay: d})
			}
			smu.Unlock()
			sent := 0
			for i := 0; i < m; i++ {
				rq := &raft.AppendEntriesRequest{RPCHeader: raft.RPCHeader{ProtocolVersion: 3}, Term: 7, PrevLogEntry: uint64(i)}
				if _, err := pl.AppendEntries(rq, &raft.AppendEntriesResponse{}); err != nil {
					break
				}
				sent++
			}
			// every request that was accepted completes, in send order, with an error or its own response
			delivered, paired := 0, true
			// the requests before the stalled one are answered at once, with their own responses
			prompt := time.After(250 * time.Millisecond)
		early:
			for delivered < stall && delivered < sent {
				select {
				case f := <-pl.Consumer():
					if f.Request().PrevLogEntry != uint64(delivered) || f.Error() != nil || f.Response().LastLog != 2000+f.Request().PrevLogEntry {
						paired = false
					}
					delivered++
				case <-prompt:
					paired = false
					break early
				}
			}
			deadline := time.After(3 * time.Second)
		collect:
			for delivered < sent {
				select {
				case f := <-pl.Consumer():
					if f.Request().PrevLogEntry != uint64(delivered) {
						paired = false
					}
					if f.Error() == nil && f.Response().LastLog != 2000+f.Request().PrevLogEntry {
						paired = false
					}
					delivered++
				case <-deadline:
					break collect
				}
			}
			_ = pl.Close()
			time.Sleep(450 * time.Millisecond) // the receiver finishes its delayed answer
			take()
			smu.Lock()
			scripts = nil
			smu.Unlock()
			fmt.Fprintf(w, "PF %d %d\n%d %d\n", m, sent, b2i(delivered == sent), b2i(paired))
			st.Hist["pipeline-timeout-with-requests-in-flight"]++
			st.Distinct++
		case x < 80: // votes, timeout-now
			var recvOK, respOK bool
			sub := rng.Intn(3)
			switch sub {
			case 0:
				req := &raft.RequestVoteRequest{RPCHeader: hdr(), Term: ru64(), Candidate: rbytes(), LastLogIndex: ru64(), LastLogTerm: ru64(), LeadershipTransfer: rng.Intn(2) == 0}
				want := &raft.RequestVoteResponse{RPCHeader: hdr(), Term: ru64(), Peers: rbytes(), Granted: rng.Intn(2) == 0}
				smu.Lock()
				scripts = []script{{resp: want}}
				smu.Unlock()
				got := &raft.RequestVoteResponse{}
				err := tA.RequestVote("B", "B", req, got)
				rec, _ := take()
				recvOK = len(rec) == 1 && reflect.DeepEqual(rec[0], req)
				respOK = err == nil && reflect.DeepEqual(got, want)
			case 1:
				req := &raft.RequestPreVoteRequest{RPCHeader: hdr(), Term: ru64(), LastLogIndex: ru64(), LastLogTerm: ru64()}
				want := &raft.RequestPreVoteResponse{RPCHeader: hdr(), Term: ru64(), Granted: rng.Intn(2) == 0}
				smu.Lock()
				scripts = []script{{resp: want}}
				smu.Unlock()
				got := &raft.RequestPreVoteResponse{}
				err := tA.RequestPreVote("B", "B", req, got)
				rec, _ := take()
				recvOK = len(rec) == 1 && reflect.DeepEqual(rec[0], req)
				respOK = err == nil && reflect.DeepEqual(got, want)
			default:
				req := &raft.TimeoutNowRequest{RPCHeader: hdr()}
				want := &raft.TimeoutNowResponse{RPCHeader: hdr()}
				smu.Lock()
				scripts = []script{{resp: want}}
				smu.Unlock()
				got := &raft.TimeoutNowResponse{}
				err := tA.TimeoutNow("B", "B", req, got)
				rec, _ := take()
				recvOK = len(rec) == 1 && reflect.DeepEqual(rec[0], req)
				respOK = err == nil && reflect.DeepEqual(got, want)
			}
			fmt.Fprintf(w, "OT %d\n%d %d\n", 1+sub, b2i(recvOK), b2i(respOK))
			st.Hist["vote-prevote-timeoutnow"]++
		case x < 90: // InstallSnapshot with a body
			body := make([]byte, []int{0, 1, 100, 4096, 100000}[rng.Intn(5)])
			rng.Read(body)
			size := int64(len(body))
			if rng.Intn(6) == 0 {
				size = -1 - int64(rng.Intn(5)) // negative sizes travel as negative ints
			}
			req := &raft.InstallSnapshotRequest{RPCHeader: hdr(), SnapshotVersion: raft.SnapshotVersion(rng.Intn(2)), Term: ru64(), Leader: rbytes(), LastLogIndex: ru64(), LastLogTerm: ru64(),
				Peers: rbytes(), Configuration: rbytes(), ConfigurationIndex: ru64(), Size: size}
			want := &raft.InstallSnapshotResponse{RPCHeader: hdr(), Term: ru64(), Success: rng.Intn(2) == 0}
			smu.Lock()
			scripts = []script{{resp: want}}
			smu.Unlock()
			got := &raft.InstallSnapshotResponse{}
			err := tA.InstallSnapshot("B", "B", req, got, bytes.NewReader(body))
			rec, bod := take()
			recvOK := len(rec) == 1 && reflect.DeepEqual(rec[0], req)
			if size >= 0 {
				recvOK = recvOK && len(bod) == 1 && bytes.Equal(bod[0], body)
			}
			respOK := err == nil && reflect.DeepEqual(got, want)
			if size < 0 {
				respOK = true // the stream is not well formed for a negative size; only the request fields are compared
				// drop the connection state
				tA.CloseStreams()
			}
			fmt.Fprintf(w, "IS %d\n%d %d\n", len(body), b2i(recvOK), b2i(respOK))
			st.Hist["install-snapshot"]++
			st.Distinct++
		default: // connection cut after k bytes of the request
			req := genAE()
			want := &raft.AppendEntriesResponse{RPCHeader: raft.RPCHeader{ProtocolVersion: 3}, Term: 99, LastLog: 424242, Success: true}
			smu.Lock()
			scripts = []script{{resp: want}}
			smu.Unlock()
			la.mu.Lock()
			la.failAfter = rng.Intn(40)
			la.mu.Unlock()
			got := &raft.AppendEntriesResponse{}
			err := tA.AppendEntries("B", "B", req, got)
			la.mu.Lock()
			la.failAfter = -1
			la.mu.Unlock()
			// the failed exchange must be an error; the next exchange must get its own response
			req2 := &raft.AppendEntriesRequest{RPCHeader: raft.RPCHeader{ProtocolVersion: 3}, Term: 5, PrevLogEntry: 77}
			want2 := &raft.AppendEntriesResponse{RPCHeader: raft.RPCHeader{ProtocolVersion: 3}, Term: 5, LastLog: 78, Success: true}
			time.Sleep(5 * time.Millisecond)
			take()
			smu.Lock()
			scripts = []script{{resp: want2}}
			smu.Unlock()
			got2 := &raft.AppendEntriesResponse{}
			err2 := tA.AppendEntries("B", "B", req2, got2)
			take()
			failedIsError := err != nil
			nextOwn := err2 == nil && reflect.DeepEqual(got2, want2)
			fmt.Fprintf(w, "CF 0\n%d %d\n", b2i(failedIsError), b2i(nextOwn))
			st.Hist["connection-fault"]++
		}
		st.Cases++
	}
	w.Flush()
	fh.Close()
	for len(st.Samples) < 1 {
		st.Samples = append(st.Samples, "see the pairs file: AE <request fields> R <response fields> ERR <handler error> => <handler saw the request> <caller saw the response> REQ <wire bytes> RESP <wire bytes>")
	}
	js, _ := json.MarshalIndent(st, "", " ")
	_ = os.WriteFile(*out+".stats.json", js, 0o644)
	os.Exit(0)
}
