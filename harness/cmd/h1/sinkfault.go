package main

// Engine "sinkfault" (C15/C11): the real FileSnapshotStore with an I/O fault injected into a sink
// (its state file is closed behind its back at a chosen point).  Whatever the fault: a Close that
// returns nil means the snapshot is listed and opens with exactly the bytes written; a Close that
// returns an error leaves nothing listed for that sink.

import (
	"bytes"
	"fmt"
	"io"
	"math/rand"
	"os"

	"github.com/hashicorp/raft"
)

func init() {
	engines["sinkfault"] = func(rng *rand.Rand, n int, thorough bool, s *sink) {
		s.st.Rule = "real FileSnapshotStore in a scratch directory: create a sink, 0..3 writes of 0..5000 bytes, the sink's state file closed behind its back before the first write / between writes / just before Close / not at all (1/4 each), then Close (or Cancel 1/8); observed: Close's result, whether the snapshot is listed, whether it opens with the bytes written; non-trivial = a fault was injected"
		base, err := os.MkdirTemp("", "verif-sinkfault")
		if err != nil {
			panic(err)
		}
		defer os.RemoveAll(base)
		for k := 0; k < n; k++ {
			dir := fmt.Sprintf("%s/%d", base, k)
			_ = os.MkdirAll(dir, 0o755)
			store, err := raft.NewFileSnapshotStore(dir, 3, io.Discard)
			if err != nil {
				panic(err)
			}
			idx, term := uint64(1+rng.Intn(100)), uint64(1+rng.Intn(5))
			sk, err := store.Create(1, idx, term, raft.Configuration{}, 0, nil)
			if err != nil {
				panic(err)
			}
			when := rng.Intn(4) // 0 before the first write, 1 between writes, 2 before Close, 3 never
			nw := rng.Intn(4)
			var want []byte
			faulted := false
			writeErr := false
			for i := 0; i < nw; i++ {
				if (when == 0 && i == 0) || (when == 1 && i == 1) {
					faulted = raft.VerifBreakSinkStateFile(sk) || faulted
				}
				b := make([]byte, rng.Intn(5001))
				rng.Read(b)
				if _, err := sk.Write(b); err != nil {
					writeErr = true
				} else {
					want = append(want, b...)
				}
			}
			if when == 2 || (when <= 1 && !faulted) {
				if when != 3 {
					faulted = raft.VerifBreakSinkStateFile(sk) || faulted
				}
			}
			cancel := rng.Intn(8) == 0
			var cerr error
			if cancel {
				cerr = sk.Cancel()
			} else {
				cerr = sk.Close()
			}
			metas, _ := store.List()
			listed, opens := 0, 0
			for _, m := range metas {
				if m.Index == idx && m.Term == term {
					listed = 1
					if _, rc, err := store.Open(m.ID); err == nil {
						got, _ := io.ReadAll(rc)
						rc.Close()
						if bytes.Equal(got, want) {
							opens = 1
						}
					}
				}
			}
			ents, _ := os.ReadDir(dir + "/snapshots")
			tmpLeft := 0
			for _, e := range ents {
				if len(e.Name()) > 4 && e.Name()[len(e.Name())-4:] == ".tmp" {
					tmpLeft++
				}
			}
			tag := fmt.Sprintf("fault-at=%d cancel=%v close-nil=%v", when, cancel, cerr == nil)
			s.emit(fmt.Sprintf("SF %d %d %d %d", b2i(cancel), when, nw, b2i(writeErr)),
				fmt.Sprintf("%d %d %d %d", b2i(cerr == nil), listed, opens, tmpLeft), faulted, tag)
			_ = os.RemoveAll(dir)
		}
	}
}

func b2i(b bool) int {
	if b {
		return 1
	}
	return 0
}
