package main

import (
	"fmt"
	"math/rand"
	"sort"
	"strings"

	"github.com/hashicorp/raft"
)

func sid(n int) string {
	if n == 0 {
		return ""
	}
	return fmt.Sprint(n)
}

func atoi(s string) int {
	n := 0
	fmt.Sscanf(s, "%d", &n)
	return n
}

// cfgFromSuff builds a configuration from a suffrage vector: 0 absent, 1 voter, 2 nonvoter, 3 staging
func cfgFromSuff(v []int) (raft.Configuration, []int) {
	var c raft.Configuration
	var voters []int
	for i, s := range v {
		id := i + 1
		switch s {
		case 1:
			c.Servers = append(c.Servers, raft.Server{Suffrage: raft.Voter, ID: raft.ServerID(sid(id)), Address: raft.ServerAddress(sid(id))})
			voters = append(voters, id)
		case 2:
			c.Servers = append(c.Servers, raft.Server{Suffrage: raft.Nonvoter, ID: raft.ServerID(sid(id)), Address: raft.ServerAddress(sid(id))})
		case 3:
			c.Servers = append(c.Servers, raft.Server{Suffrage: raft.Staging, ID: raft.ServerID(sid(id)), Address: raft.ServerAddress(sid(id))})
		}
	}
	return c, voters
}

func natList(xs []int) string {
	p := []string{fmt.Sprint(len(xs))}
	for _, x := range xs {
		p = append(p, fmt.Sprint(x))
	}
	return strings.Join(p, " ")
}

func cmSnap(c *raft.VerifCommitment) string {
	m := c.MatchIndexes()
	var ids []int
	for k := range m {
		ids = append(ids, atoi(string(k)))
	}
	sort.Ints(ids)
	p := []string{fmt.Sprint(c.CommitIndex()), fmt.Sprint(len(ids))}
	for _, id := range ids {
		p = append(p, fmt.Sprint(id), fmt.Sprint(m[raft.ServerID(sid(id))]))
	}
	return strings.Join(p, " ")
}

type cmOp struct {
	isCfg   bool
	id, idx int
	suff    []int
}

func runCommitmentCase(s *sink, suff []int, start int, ops []cmOp) {
	cfg, voters := cfgFromSuff(suff)
	cm := raft.VerifNewCommitment(cfg, uint64(start))
	snaps := []string{cmSnap(cm)}
	var opStr []string
	moved := false
	nonvoterReport := false
	for _, op := range ops {
		before := cm.CommitIndex()
		if op.isCfg {
			c2, v2 := cfgFromSuff(op.suff)
			cm.SetConfiguration(c2)
			opStr = append(opStr, "C "+natList(v2))
			voters = v2
		} else {
			cm.Match(raft.ServerID(sid(op.id)), uint64(op.idx))
			opStr = append(opStr, fmt.Sprintf("M %d %d", op.id, op.idx))
			isV := false
			for _, v := range voters {
				if v == op.id {
					isV = true
				}
			}
			if !isV {
				nonvoterReport = true
			}
		}
		if cm.CommitIndex() != before {
			moved = true
		}
		snaps = append(snaps, cmSnap(cm))
	}
	_, v0 := cfgFromSuff(suff)
	caseLine := fmt.Sprintf("S %d V %s O %d %s", start, natList(v0), len(ops), strings.Join(opStr, " "))
	implLine := fmt.Sprintf("%d %s", len(snaps), strings.Join(snaps, " "))
	var tags []string
	if moved {
		tags = append(tags, "commit-moved")
	}
	if nonvoterReport {
		tags = append(tags, "nonvoter-or-absent-report")
	}
	tags = append(tags, fmt.Sprintf("voters=%d", len(v0)))
	s.emit(strings.TrimSpace(caseLine), implLine, moved, tags...)
}

func init() {
	engines["commitment"] = func(rng *rand.Rand, n int, thorough bool, s *sink) {
		s.st.Rule = "exhaustive: every suffrage vector over 3 servers (4^3) x startIndex 0..3 x every ordered pair of match reports (id 1..4, idx 1..3) [thorough: 4 servers, triples]; random: configurations over 5 servers, startIndex 0..5, up to 12 operations (1/5 setConfiguration); non-trivial = the commit index moved at least once"
		s.st.Exhaust = true
		nsrv, depth := 3, 2
		if thorough {
			nsrv, depth = 4, 2
		}
		var mops []cmOp
		for id := 1; id <= nsrv+1; id++ {
			for idx := 1; idx <= 3; idx++ {
				mops = append(mops, cmOp{id: id, idx: idx})
			}
		}
		total := 1
		for i := 0; i < nsrv; i++ {
			total *= 4
		}
		for code := 0; code < total; code++ {
			suff := make([]int, nsrv)
			c := code
			for i := range suff {
				suff[i] = c % 4
				c /= 4
			}
			for start := 0; start <= 3; start++ {
				var rec func(prefix []cmOp, d int)
				rec = func(prefix []cmOp, d int) {
					if d == 0 {
						runCommitmentCase(s, suff, start, prefix)
						return
					}
					for _, op := range mops {
						rec(append(append([]cmOp{}, prefix...), op), d-1)
					}
				}
				rec(nil, depth)
				if thorough {
					// a reconfiguration between two reports
					for code2 := 0; code2 < total; code2 += 3 {
						s2 := make([]int, nsrv)
						c2 := code2
						for i := range s2 {
							s2[i] = c2 % 4
							c2 /= 4
						}
						for _, a := range mops {
							for _, b := range mops[:6] {
								runCommitmentCase(s, suff, start, []cmOp{a, {isCfg: true, suff: s2}, b})
							}
						}
					}
				}
			}
		}
		randSuff := func() []int {
			v := make([]int, 5)
			for i := range v {
				switch r := rng.Intn(8); {
				case r < 4:
					v[i] = 1
				case r < 5:
					v[i] = 2
				case r < 6:
					v[i] = 3
				}
			}
			return v
		}
		for k := 0; k < n; k++ {
			suff := randSuff()
			start := rng.Intn(6)
			var ops []cmOp
			for i, l := 0, 1+rng.Intn(12); i < l; i++ {
				if rng.Intn(5) == 0 {
					ops = append(ops, cmOp{isCfg: true, suff: randSuff()})
				} else {
					ops = append(ops, cmOp{id: 1 + rng.Intn(6), idx: rng.Intn(10)})
				}
			}
			runCommitmentCase(s, suff, start, ops)
		}
	}
}
