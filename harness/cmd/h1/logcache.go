package main

import (
	"errors"
	"fmt"
	"math/rand"
	"strings"

	"github.com/hashicorp/raft"
)

// failStore fails StoreLogs / DeleteRange atomically when armed (as the suite's errorStore does).
type failStore struct {
	*raft.InmemStore
	fail bool
}

func (f *failStore) StoreLogs(logs []*raft.Log) error {
	if f.fail {
		return errors.New("injected")
	}
	return f.InmemStore.StoreLogs(logs)
}
func (f *failStore) StoreLog(l *raft.Log) error { return f.StoreLogs([]*raft.Log{l}) }
func (f *failStore) DeleteRange(a, b uint64) error {
	if f.fail {
		return errors.New("injected")
	}
	return f.InmemStore.DeleteRange(a, b)
}

type lcOp struct {
	kind    byte // G S D F L
	i, j, f int
	logs    [][3]int
}

func (o lcOp) String() string {
	switch o.kind {
	case 'G':
		return fmt.Sprintf("G %d", o.i)
	case 'S':
		p := []string{"S", fmt.Sprint(o.f), fmt.Sprint(len(o.logs))}
		for _, l := range o.logs {
			p = append(p, fmt.Sprint(l[0]), fmt.Sprint(l[1]), fmt.Sprint(l[2]))
		}
		return strings.Join(p, " ")
	case 'D':
		return fmt.Sprintf("D %d %d %d", o.i, o.j, o.f)
	}
	return string(o.kind)
}

type logStoreLike interface {
	raft.LogStore
}

func applyLcOp(st logStoreLike, fs *failStore, o lcOp) string {
	switch o.kind {
	case 'G':
		var lg raft.Log
		if err := st.GetLog(uint64(o.i), &lg); err != nil {
			return "e 0"
		}
		d := 0
		if len(lg.Data) > 0 {
			d = int(lg.Data[0])
		}
		return fmt.Sprintf("e 1 %d %d %d", lg.Index, lg.Term, d)
	case 'S':
		var logs []*raft.Log
		for _, l := range o.logs {
			logs = append(logs, &raft.Log{Index: uint64(l[0]), Term: uint64(l[1]), Data: []byte{byte(l[2])}})
		}
		fs.fail = o.f%2 == 1
		err := st.StoreLogs(logs)
		fs.fail = false
		if err != nil {
			return "b 0"
		}
		return "b 1"
	case 'D':
		fs.fail = o.f%2 == 1
		err := st.DeleteRange(uint64(o.i), uint64(o.j))
		fs.fail = false
		if err != nil {
			return "b 0"
		}
		return "b 1"
	case 'F':
		v, _ := st.FirstIndex()
		return fmt.Sprintf("i %d", v)
	default:
		v, _ := st.LastIndex()
		return fmt.Sprintf("i %d", v)
	}
}

func runLogCacheCase(s *sink, capa int, ops []lcOp) {
	fs := &failStore{InmemStore: raft.NewInmemStore()}
	lc, _ := raft.NewLogCache(capa, fs)
	bare := &failStore{InmemStore: raft.NewInmemStore()}
	var os_, a, b []string
	hit := false
	for _, o := range ops {
		os_ = append(os_, o.String())
		ra := applyLcOp(lc, fs, o)
		rb := applyLcOp(bare, bare, o)
		if o.kind == 'G' && strings.HasPrefix(ra, "e 1") {
			hit = true
		}
		a = append(a, ra)
		b = append(b, rb)
	}
	caseLine := fmt.Sprintf("C %d O %d %s", capa, len(ops), strings.Join(os_, " "))
	impl := fmt.Sprintf("%d %s | %d %s", len(a), strings.Join(a, " "), len(b), strings.Join(b, " "))
	tags := []string{fmt.Sprintf("cap=%d", capa)}
	if hit {
		tags = append(tags, "read-returned-entry")
	}
	s.emit(strings.TrimSpace(caseLine), impl, hit, tags...)
}

func init() {
	engines["logcache"] = func(rng *rand.Rand, n int, thorough bool, s *sink) {
		s.st.Rule = "exhaustive: every sequence of length 4 [thorough: 5] over the alphabet {store one entry (index 1..3, term 1..2), store a failing entry, delete [1..1],[2..3],[1..3], get 1..3, first, last} x capacity 1..2; random: up to 14 [thorough: 200] operations over indexes 1..6 (1..40), capacities 1..3 (1..8), batches of 1..3 entries, 1/4 of the writes failing; non-trivial = some read returned an entry"
		s.st.Exhaust = true
		var alpha []lcOp
		for i := 1; i <= 3; i++ {
			for t := 1; t <= 2; t++ {
				alpha = append(alpha, lcOp{kind: 'S', logs: [][3]int{{i, t, 10*i + t}}})
			}
			alpha = append(alpha, lcOp{kind: 'G', i: i})
		}
		alpha = append(alpha, lcOp{kind: 'S', f: 1, logs: [][3]int{{2, 3, 99}}},
			lcOp{kind: 'D', i: 1, j: 1}, lcOp{kind: 'D', i: 2, j: 3}, lcOp{kind: 'D', i: 1, j: 3}, lcOp{kind: 'F'}, lcOp{kind: 'L'})
		depth := 4
		if thorough {
			depth = 5
		}
		for capa := 1; capa <= 2; capa++ {
			var rec func(prefix []lcOp, d int)
			rec = func(prefix []lcOp, d int) {
				if d == 0 {
					runLogCacheCase(s, capa, prefix)
					return
				}
				for _, o := range alpha {
					rec(append(append([]lcOp{}, prefix...), o), d-1)
				}
			}
			rec(nil, depth)
		}
		maxLen, maxIdx, maxCap := 14, 6, 3
		if thorough {
			maxLen, maxIdx, maxCap = 200, 40, 8
		}
		for k := 0; k < n; k++ {
			capa := 1 + rng.Intn(maxCap)
			var ops []lcOp
			for i, l := 0, 1+rng.Intn(maxLen); i < l; i++ {
				switch rng.Intn(8) {
				case 0, 1, 2:
					var logs [][3]int
					base := 1 + rng.Intn(maxIdx)
					for j, m := 0, 1+rng.Intn(3); j < m; j++ {
						idx := base + j
						if rng.Intn(4) == 0 {
							idx = 1 + rng.Intn(maxIdx)
						}
						logs = append(logs, [3]int{idx, 1 + rng.Intn(3), rng.Intn(50)})
					}
					f := 0
					if rng.Intn(4) == 0 {
						f = 1
					}
					ops = append(ops, lcOp{kind: 'S', f: f, logs: logs})
				case 3:
					lo := 1 + rng.Intn(maxIdx)
					hi := lo + rng.Intn(3)
					if rng.Intn(5) == 0 {
						hi = 1 + rng.Intn(maxIdx) // may be empty (hi < lo)
					}
					f := 0
					if rng.Intn(6) == 0 {
						f = 1
					}
					ops = append(ops, lcOp{kind: 'D', i: lo, j: hi, f: f})
				case 4:
					ops = append(ops, lcOp{kind: "FL"[rng.Intn(2)]})
				default:
					ops = append(ops, lcOp{kind: 'G', i: rng.Intn(maxIdx + 2)})
				}
			}
			runLogCacheCase(s, capa, ops)
		}
	}
}
