package main

import (
	"fmt"
	"io"
	"math/rand"

	"github.com/hashicorp/raft"
)

// recStore: a LogStore whose FirstIndex/LastIndex are set by the harness and which records DeleteRange.
type recStore struct {
	first, last uint64
	deleted     [][2]uint64
}

func (r *recStore) FirstIndex() (uint64, error)        { return r.first, nil }
func (r *recStore) LastIndex() (uint64, error)         { return r.last, nil }
func (r *recStore) GetLog(i uint64, l *raft.Log) error { return raft.ErrLogNotFound }
func (r *recStore) StoreLog(l *raft.Log) error         { return nil }
func (r *recStore) StoreLogs(l []*raft.Log) error      { return nil }
func (r *recStore) DeleteRange(a, b uint64) error {
	r.deleted = append(r.deleted, [2]uint64{a, b})
	return nil
}

type nullFSM struct{}

func (nullFSM) Apply(*raft.Log) interface{}         { return nil }
func (nullFSM) Snapshot() (raft.FSMSnapshot, error) { return nil, fmt.Errorf("none") }
func (nullFSM) Restore(rc io.ReadCloser) error      { return rc.Close() }

func newBareRaft(logs raft.LogStore) *raft.Raft {
	conf := raft.DefaultConfig()
	conf.LocalID = "1"
	conf.LogOutput = io.Discard
	_, trans := raft.NewInmemTransport("1")
	r, err := raft.VerifNewRaftNoStart(conf, nullFSM{}, logs, raft.NewInmemStore(), raft.NewInmemSnapshotStore(), trans)
	if err != nil {
		panic(err)
	}
	return r
}

func init() {
	engines["compaction"] = func(rng *rand.Rand, n int, thorough bool, s *sink) {
		s.st.Rule = "exhaustive: every (snapshot index, last index, TrailingLogs, first index) in 0..12 [thorough: 0..20]; random: values up to 10^6 with the four orderings equally likely; non-trivial = a range was deleted"
		s.st.Exhaust = true
		rs := &recStore{}
		r := newBareRaft(rs)
		run := func(snap, last, trailing, first uint64) {
			rs.first, rs.last, rs.deleted = first, last, nil
			err := r.VerifCompactLogsWithTrailing(snap, last, trailing)
			impl := "N"
			if err != nil {
				impl = "ERR"
			} else if len(rs.deleted) == 1 {
				impl = fmt.Sprintf("D %d %d", rs.deleted[0][0], rs.deleted[0][1])
			} else if len(rs.deleted) > 1 {
				impl = "MULTI"
			}
			tag := "nothing"
			if impl != "N" {
				tag = "deleted"
			}
			s.emit(fmt.Sprintf("%d %d %d %d %d", snap, last, trailing, first, last), impl, impl != "N", tag)
		}
		lim := uint64(12)
		if thorough {
			lim = 20
		}
		for a := uint64(0); a <= lim; a++ {
			for b := uint64(0); b <= lim; b++ {
				for c := uint64(0); c <= lim; c++ {
					for d := uint64(0); d <= lim; d++ {
						run(a, b, c, d)
					}
				}
			}
		}
		for k := 0; k < n; k++ {
			last := uint64(rng.Intn(1000000))
			snap := uint64(rng.Intn(1000000))
			if rng.Intn(2) == 0 && last > 0 {
				snap = uint64(rng.Int63n(int64(last) + 1))
			}
			trailing := uint64(rng.Intn(20000))
			first := uint64(rng.Intn(1000))
			if rng.Intn(3) == 0 && snap > 0 {
				first = uint64(rng.Int63n(int64(snap) + 2))
			}
			run(snap, last, trailing, first)
		}
	}
}
