package main

import (
	"fmt"
	"math/rand"
	"reflect"
	"strings"

	"github.com/hashicorp/raft"
)

func cfgLine(c raft.Configuration) string {
	p := []string{"K", fmt.Sprint(len(c.Servers))}
	for _, s := range c.Servers {
		p = append(p, fmt.Sprint(int(s.Suffrage)), fmt.Sprint(atoi(string(s.ID))), fmt.Sprint(atoi(string(s.Address))))
	}
	return strings.Join(p, " ")
}

func runNextConfigCase(s *sink, cur raft.Configuration, curIdx uint64, cmd raft.ConfigurationChangeCommand, id, addr int, prev uint64) {
	caseLine := fmt.Sprintf("I %d %s R %d %d %d %d", curIdx, cfgLine(cur), int(cmd), id, addr, prev)
	before := cur.Clone()
	out, err := raft.VerifNextConfiguration(cur, curIdx, cmd, raft.ServerID(sid(id)), raft.ServerAddress(sid(addr)), prev)
	impl := "E"
	tags := []string{"cmd=" + cmd.String()}
	nontrivial := false
	if !reflect.DeepEqual(before.Servers, cur.Servers) && !(len(before.Servers) == 0 && len(cur.Servers) == 0) {
		impl = "X"
	} else if err == nil {
		impl = cfgLine(out)
		tags = append(tags, "accepted")
		if !reflect.DeepEqual(out.Servers, before.Servers) {
			tags = append(tags, "changed")
			nontrivial = true
		}
	} else {
		tags = append(tags, "rejected")
	}
	s.emit(caseLine, impl, nontrivial, tags...)
}

func init() {
	cmds := []raft.ConfigurationChangeCommand{raft.AddVoter, raft.AddNonvoter, raft.DemoteVoter, raft.RemoveServer, raft.Promote}
	engines["nextconfig"] = func(rng *rand.Rand, n int, thorough bool, s *sink) {
		s.st.Rule = "exhaustive: every configuration over ids 1..3 (absent/voter/nonvoter/staging, address = 10+id) x 5 commands x target id 1..4 x address {own, another server's, fresh} x prevIndex {0, current, stale} [thorough: ids 1..4]; random: 4/5 well-formed configurations over 5 ids in random order, 1/5 malformed (duplicate/empty ids and addresses); non-trivial = accepted and the configuration changed"
		s.st.Exhaust = true
		nsrv := 3
		if thorough {
			nsrv = 4
		}
		total := 1
		for i := 0; i < nsrv; i++ {
			total *= 4
		}
		for code := 0; code < total; code++ {
			var cur raft.Configuration
			c := code
			for i := 0; i < nsrv; i++ {
				sf := c % 4
				c /= 4
				if sf == 0 {
					continue
				}
				cur.Servers = append(cur.Servers, raft.Server{Suffrage: raft.ServerSuffrage(sf - 1), ID: raft.ServerID(sid(i + 1)), Address: raft.ServerAddress(sid(11 + i))})
			}
			for _, cmd := range cmds {
				for id := 1; id <= nsrv+1; id++ {
					for _, addr := range []int{10 + id, 10 + (id % nsrv) + 1, 19} {
						for _, prev := range []uint64{0, 7, 6} {
							runNextConfigCase(s, cur.Clone(), 7, cmd, id, addr, prev)
						}
					}
				}
			}
		}
		for k := 0; k < n; k++ {
			var c raft.Configuration
			var cmd raft.ConfigurationChangeCommand
			var id, addr int
			var prev uint64
			if rng.Intn(5) == 0 { // malformed stream
				for i, l := 0, rng.Intn(5); i < l; i++ {
					a := 10 + rng.Intn(5)
					if a == 10 {
						a = 0
					}
					c.Servers = append(c.Servers, raft.Server{Suffrage: raft.ServerSuffrage(rng.Intn(3)), ID: raft.ServerID(sid(rng.Intn(5))), Address: raft.ServerAddress(sid(a))})
				}
				cmd, id, addr, prev = cmds[rng.Intn(5)], rng.Intn(6), 10+rng.Intn(6), []uint64{0, 0, 7, 6}[rng.Intn(4)]
				if addr == 10 {
					addr = 0
				}
			} else {
				for _, i := range rng.Perm(5) {
					if i == 0 || rng.Intn(3) == 0 {
						continue
					}
					suff := raft.ServerSuffrage(rng.Intn(3))
					if rng.Intn(2) == 0 {
						suff = raft.Voter
					}
					c.Servers = append(c.Servers, raft.Server{Suffrage: suff, ID: raft.ServerID(sid(i)), Address: raft.ServerAddress(sid(10 + i))})
				}
				id = 1 + rng.Intn(5)
				addr = 10 + id
				if rng.Intn(4) == 0 {
					addr = 11 + rng.Intn(6)
				}
				cmd, prev = cmds[rng.Intn(5)], []uint64{0, 0, 7, 7, 6}[rng.Intn(5)]
			}
			runNextConfigCase(s, c, 7, cmd, id, addr, prev)
		}
	}
}
