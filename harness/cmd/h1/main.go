// h1: pure-function / small-object differential harness.  For every generated case it writes two
// lines to -out: the case and what the real implementation (built from the working tree with
// -tags verif) produced.  The Lean driver reads the pairs and judges each (model diff + Spec).
package main

import (
	"bufio"
	"encoding/json"
	"flag"
	"fmt"
	"math/rand"
	"os"
	"sort"
	"strings"
)

type stats struct {
	Engine   string         `json:"engine"`
	Cases    int            `json:"cases"`
	Distinct int            `json:"distinct_nontrivial"`
	Rule     string         `json:"rule"`
	Hist     map[string]int `json:"histogram"`
	Samples  []string       `json:"samples"`
	Exhaust  bool           `json:"exhaustive_part"`
}

type sink struct {
	w     *bufio.Writer
	st    *stats
	seen  map[string]struct{}
	nsamp int
}

func (s *sink) emit(caseLine, implLine string, nontrivial bool, tags ...string) {
	fmt.Fprintln(s.w, caseLine)
	fmt.Fprintln(s.w, implLine)
	s.st.Cases++
	for _, t := range tags {
		s.st.Hist[t]++
	}
	if nontrivial {
		if _, ok := s.seen[caseLine]; !ok {
			s.seen[caseLine] = struct{}{}
			s.st.Distinct++
			if s.nsamp < 5 {
				s.nsamp++
				s.st.Samples = append(s.st.Samples, caseLine+" => "+implLine)
			}
		}
	}
}

var engines = map[string]func(rng *rand.Rand, n int, thorough bool, s *sink){}

func main() {
	engine := flag.String("engine", "", "engine name")
	seed := flag.Int64("seed", 1, "PRNG seed")
	n := flag.Int("n", 1000, "random cases")
	thorough := flag.Bool("thorough", false, "thorough tier")
	out := flag.String("out", "", "output file (pairs of lines)")
	flag.Parse()
	f, ok := engines[*engine]
	if !ok {
		var names []string
		for k := range engines {
			names = append(names, k)
		}
		sort.Strings(names)
		fmt.Fprintln(os.Stderr, "unknown engine; have:", strings.Join(names, " "))
		os.Exit(2)
	}
	fh, err := os.Create(*out)
	if err != nil {
		panic(err)
	}
	st := &stats{Engine: *engine, Hist: map[string]int{}}
	sk := &sink{w: bufio.NewWriterSize(fh, 1<<20), st: st, seen: map[string]struct{}{}}
	f(rand.New(rand.NewSource(*seed)), *n, *thorough, sk)
	sk.w.Flush()
	fh.Close()
	js, _ := json.MarshalIndent(st, "", " ")
	os.WriteFile(*out+".stats.json", js, 0o644)
}
