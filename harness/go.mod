module verifharness

go 1.26

require github.com/hashicorp/raft v0.0.0

require (
	github.com/armon/go-metrics v0.4.1 // indirect
	github.com/fatih/color v1.13.0 // indirect
	github.com/hashicorp/go-hclog v1.6.3 // indirect
	github.com/hashicorp/go-immutable-radix v1.0.0 // indirect
	github.com/hashicorp/go-metrics v0.5.4 // indirect
	github.com/hashicorp/go-msgpack/v2 v2.1.5 // indirect
	github.com/hashicorp/golang-lru v0.5.0 // indirect
	github.com/mattn/go-colorable v0.1.12 // indirect
	github.com/mattn/go-isatty v0.0.14 // indirect
	golang.org/x/sys v0.13.0 // indirect
)

replace github.com/hashicorp/raft => /repo
