package h2

// H3: N real servers with their full run loops inside one testing/synctest bubble (virtual time),
// connected through fault-injecting proxies (delay, drop, duplicate, partition), with concurrent
// clients, membership changes, snapshots, leadership transfers, crashes (shutdown + NewRaft on the
// surviving stores) and store write failures.  The global history is recorded; the Lean `cluster`
// monitors judge it.  No model stepping here: this is the search for a failing history on the real
// code and the evidence that the histories the cluster theorems speak about are the ones it produces.

import (
	"bufio"
	"errors"
	"fmt"
	"io"
	"math/rand"
	"os"
	"runtime"
	"strconv"
	"strings"
	"sync"
	"testing/synctest"
	"time"

	"github.com/hashicorp/raft"
)

type hist struct {
	mu    sync.Mutex
	t0    time.Time
	lines []string
	seenS map[string]bool
}

func (h *hist) now() int64 { return time.Since(h.t0).Milliseconds() }
func (h *hist) rec(f string, a ...interface{}) {
	h.mu.Lock()
	h.lines = append(h.lines, fmt.Sprintf(f, a...))
	h.mu.Unlock()
}

// ---- per-server pieces --------------------------------------------------------------------------

type cfsm struct {
	h       *hist
	id      int
	life    int
	mu      sync.Mutex
	state   []int
	slow    time.Duration
	persist time.Duration
}

func (f *cfsm) Apply(l *raft.Log) interface{} {
	if f.slow > 0 {
		time.Sleep(f.slow)
	}
	f.mu.Lock()
	defer f.mu.Unlock()
	p := payloadOf(l)
	f.state = append(f.state, p)
	f.h.rec("F %d %d a %d %d %d", f.id, f.life, l.Index, l.Term, p)
	return p
}
func (f *cfsm) Snapshot() (raft.FSMSnapshot, error) {
	f.mu.Lock()
	defer f.mu.Unlock()
	// (one snapshot in seven fails half-way through Persist, leaving the sink to raft, which cancels it)
	return &slowSnap{data: encodeState(f.state), d: f.persist, noClose: len(f.state)%2 == 0, failHalf: len(f.state)%7 == 3}, nil
}
func (f *cfsm) Restore(rc io.ReadCloser) error {
	b, err := io.ReadAll(rc)
	if err != nil {
		return err
	}
	f.mu.Lock()
	defer f.mu.Unlock()
	f.state = decodeState(b)
	f.h.rec("F %d %d r %s", f.id, f.life, intsTok(f.state))
	return nil
}

// cbfsm: the same state machine as a BatchingFSM with a ConfigurationStore
type cbfsm struct{ *cfsm }

func (f *cbfsm) ApplyBatch(logs []*raft.Log) []interface{} {
	out := make([]interface{}, len(logs))
	for i, l := range logs {
		if l.Type == raft.LogCommand {
			out[i] = f.cfsm.Apply(l)
		} else {
			out[i] = -1 - int(l.Index) // a configuration entry: its "response" must never reach a client
		}
	}
	return out
}
func (f *cbfsm) StoreConfiguration(index uint64, configuration raft.Configuration) {}

// slowSnap: Persist takes a while, so that InstallSnapshot / restore can fall into a running snapshot
type slowSnap struct {
	data     []byte
	d        time.Duration
	noClose  bool // leave the final Close to raft (both styles exist among FSMs)
	failHalf bool
}

func (s *slowSnap) Persist(sink raft.SnapshotSink) error {
	time.Sleep(s.d)
	if s.failHalf {
		_, _ = sink.Write(s.data[:len(s.data)/2])
		return errInjected
	}
	if _, err := sink.Write(s.data); err != nil {
		_ = sink.Cancel()
		return err
	}
	if s.noClose {
		return nil
	}
	return sink.Close()
}
func (s *slowSnap) Release() {}

func (f *cfsm) snapshotState() []int {
	f.mu.Lock()
	defer f.mu.Unlock()
	return append([]int{}, f.state...)
}

// cstore: InmemStore with optional injected StoreLogs failures (followers' disk errors)
type cstore struct {
	*raft.InmemStore
	mu       sync.Mutex
	failNext int
	mono     bool
	pending  uint64 // staged commit index: becomes durable with the next successful StoreLogs
	staged   uint64
}

func (s *cstore) StageCommitIndex(i uint64) error {
	s.mu.Lock()
	s.pending = i
	s.mu.Unlock()
	return nil
}
func (s *cstore) GetCommitIndex() (uint64, error) {
	s.mu.Lock()
	defer s.mu.Unlock()
	return s.staged, nil
}

func (s *cstore) IsMonotonic() bool { return s.mono }
func (s *cstore) StoreLogs(ls []*raft.Log) error {
	s.mu.Lock()
	if s.failNext > 0 {
		s.failNext--
		s.mu.Unlock()
		return errInjected
	}
	s.mu.Unlock()
	cp := make([]*raft.Log, len(ls))
	for i, l := range ls {
		x := *l
		cp[i] = &x
	}
	err := s.InmemStore.StoreLogs(cp)
	if err == nil {
		s.mu.Lock()
		s.staged = s.pending
		s.mu.Unlock()
	}
	return err
}
func (s *cstore) StoreLog(l *raft.Log) error { return s.StoreLogs([]*raft.Log{l}) }

// ringLog keeps the last lines a server logged (dumped when an availability check fails)
type ringLog struct {
	mu    sync.Mutex
	lines []string
}

func (l *ringLog) Write(p []byte) (int, error) {
	l.mu.Lock()
	l.lines = append(l.lines, string(p))
	if len(l.lines) > 400 {
		l.lines = l.lines[len(l.lines)-300:]
	}
	l.mu.Unlock()
	return len(p), nil
}

type cnode struct {
	rlog      *ringLog
	batching  bool // the FSM is a BatchingFSM + ConfigurationStore in this lifetime
	slowClock bool // this server's timeouts are 10x longer (a slow clock; C09 assumes nothing about clocks)
	id        int
	addr      raft.ServerAddress
	st        *cstore
	snaps     *snapStore
	fsm       *cfsm
	r         *raft.Raft
	trans     *raft.InmemTransport
	life      int
	up        bool
	notify    chan bool
}

type cluster struct {
	rng          *rand.Rand
	h            *hist
	nodes        []*cnode
	inj          *raft.InmemTransport
	mu           sync.Mutex
	blocked      map[[2]int]bool // directed pairs that drop everything
	holdMs       map[[2]int]int  // responses on this directed pair (responder, requester) are held this long
	litmus       bool
	hbLong       bool
	verySlow     bool // the slow-clock server is slower still
	batchCh      bool // buffered apply channel (BatchApplyCh)
	autoSnap     bool // automatic snapshots (short interval, low threshold)
	trailing     uint64
	maxAE        int
	noPV         map[int]bool // servers running with pre-vote disabled
	legacy       bool         // the network strips ID and Addr from AppendEntries / InstallSnapshot headers (a leader of an older release: only the deprecated Leader field names it)
	codes        map[int]int  // result code per finished call
	dbgLines     []string
	lastTransfer int64 // virtual ms of the latest leadership-transfer call (-1: none)
	pv2          bool  // every server runs protocol version 2
	track        bool  // commit-tracking log stores with RestoreCommittedLogs
	slowFSM      bool  // some FSMs take a few virtual ms per Apply
	delayMs      int
	dropPct      int
	dupPct       int
	wg           sync.WaitGroup
	pay          int
	calls        int
	stopped      bool
}

// idIsAddr: protocol version 2 requires a server's ID to be its address (set per case)
var idIsAddr bool

func sidOf(i int) raft.ServerID {
	if idIsAddr {
		return raft.ServerID(addrOf(i))
	}
	return raft.ServerID(strconv.Itoa(i))
}
func addrOf(i int) raft.ServerAddress { return raft.ServerAddress(strconv.Itoa(10 + i)) }

func errCode(err error) int {
	switch {
	case err == nil:
		return 0
	case errors.Is(err, raft.ErrNotLeader):
		return 1
	case errors.Is(err, raft.ErrLeadershipLost):
		return 2
	case errors.Is(err, raft.ErrEnqueueTimeout):
		return 3
	case errors.Is(err, raft.ErrRaftShutdown):
		return 4
	case errors.Is(err, raft.ErrLeadershipTransferInProgress):
		return 5
	case errors.Is(err, raft.ErrAbortedByRestore):
		return 6
	}
	return 9
}

func (c *cluster) conf(i int, n *cnode) *raft.Config {
	conf := raft.DefaultConfig()
	conf.LocalID = sidOf(i)
	conf.LogOutput = io.Discard
	if n.rlog == nil {
		n.rlog = &ringLog{}
	}
	conf.LogOutput = n.rlog
	conf.LogLevel = "DEBUG"
	if os.Getenv("VERIF_RAFTLOG") != "" {
		conf.LogOutput = os.Stderr
	}
	conf.HeartbeatTimeout = 50 * time.Millisecond
	conf.ElectionTimeout = 50 * time.Millisecond
	conf.LeaderLeaseTimeout = 50 * time.Millisecond
	if c.litmus {
		conf.HeartbeatTimeout = 100 * time.Millisecond
		conf.ElectionTimeout = 100 * time.Millisecond
		conf.LeaderLeaseTimeout = 100 * time.Millisecond
	}
	if c.hbLong { // heartbeat / election timeouts four times the lease
		conf.HeartbeatTimeout = 200 * time.Millisecond
		conf.ElectionTimeout = 200 * time.Millisecond
		conf.LeaderLeaseTimeout = 50 * time.Millisecond
	}
	if n.slowClock {
		conf.HeartbeatTimeout = 300 * time.Millisecond
		conf.ElectionTimeout = 300 * time.Millisecond
		conf.LeaderLeaseTimeout = 300 * time.Millisecond
		if c.verySlow {
			conf.HeartbeatTimeout = 700 * time.Millisecond
			conf.ElectionTimeout = 700 * time.Millisecond
			conf.LeaderLeaseTimeout = 700 * time.Millisecond
		}
	}
	conf.CommitTimeout = 5 * time.Millisecond
	conf.SnapshotInterval = 3600 * time.Second
	conf.SnapshotThreshold = 1 << 30
	conf.TrailingLogs = 3
	conf.MaxAppendEntries = 4
	if c.autoSnap {
		conf.SnapshotInterval = 150 * time.Millisecond
		conf.SnapshotThreshold = 4
	}
	if c.trailing != 0 {
		conf.TrailingLogs = c.trailing - 1 // stored +1 so that 0 means "default"
	}
	if c.maxAE != 0 {
		conf.MaxAppendEntries = c.maxAE
	}
	conf.BatchApplyCh = c.batchCh
	if c.noPV[i] {
		conf.PreVoteDisabled = true
	}
	conf.NotifyCh = n.notify
	conf.ShutdownOnRemove = false
	if c.pv2 {
		conf.ProtocolVersion = 2
	}
	conf.RestoreCommittedLogs = c.track
	return conf
}

// proxy: every RPC from server `from` to server `to` passes here
func (c *cluster) proxyLoop(from, to int, px *raft.InmemTransport) {
	for rpc := range px.Consumer() {
		rpc := rpc
		go c.forward(from, to, rpc)
	}
}

func (c *cluster) forward(from, to int, rpc raft.RPC) {
	c.mu.Lock()
	blocked := c.blocked[[2]int{from, to}] || c.stopped
	back := c.blocked[[2]int{to, from}]
	hold := c.holdMs[[2]int{to, from}]
	delay, drop, dup := c.delayMs, c.dropPct, c.dupPct
	r1, r2, r3, r4 := c.rng.Intn(100), c.rng.Intn(100), c.rng.Intn(delay+1), c.rng.Intn(delay+1)
	c.mu.Unlock()
	if blocked || r1 < drop {
		return // the sender times out
	}
	time.Sleep(time.Duration(r3) * time.Millisecond)
	target := c.nodes[to]
	var resp interface{}
	var err error
	if c.legacy {
		switch a := rpc.Command.(type) {
		case *raft.AppendEntriesRequest:
			b := *a
			b.RPCHeader.ID, b.RPCHeader.Addr = nil, nil
			rpc.Command = &b
		case *raft.InstallSnapshotRequest:
			b := *a
			b.RPCHeader.ID, b.RPCHeader.Addr = nil, nil
			rpc.Command = &b
		}
	}
	switch a := rpc.Command.(type) {
	case *raft.AppendEntriesRequest:
		c.noteSender(from, a.Term)
		out := &raft.AppendEntriesResponse{}
		err = c.inj.AppendEntries(sidOf(to), target.addr, a, out)
		resp = out
		if r2 < dup && err == nil { // a duplicate of the request arrives later
			go func() {
				time.Sleep(time.Duration(5+r4) * time.Millisecond)
				_ = c.inj.AppendEntries(sidOf(to), target.addr, a, &raft.AppendEntriesResponse{})
			}()
		}
	case *raft.RequestVoteRequest:
		out := &raft.RequestVoteResponse{}
		err = c.inj.RequestVote(sidOf(to), target.addr, a, out)
		resp = out
		if err == nil && out.Granted {
			c.h.rec("G %d %d %d", to, a.Term, from)
		}
	case *raft.RequestPreVoteRequest:
		out := &raft.RequestPreVoteResponse{}
		err = c.inj.RequestPreVote(sidOf(to), target.addr, a, out)
		resp = out
	case *raft.InstallSnapshotRequest:
		c.noteSender(from, a.Term)
		out := &raft.InstallSnapshotResponse{}
		err = c.inj.InstallSnapshot(sidOf(to), target.addr, a, out, rpc.Reader)
		resp = out
	case *raft.TimeoutNowRequest:
		out := &raft.TimeoutNowResponse{}
		err = c.inj.TimeoutNow(sidOf(to), target.addr, a, out)
		resp = out
	}
	if err != nil && os.Getenv("VERIF_TRACE") != "" && strings.Contains(err.Error(), "failed to connect") {
		c.dbg("t=%d forward %d->%d: %v (target up=%v life=%d)", c.h.now(), from, to, err, target.up, target.life)
	}
	if back {
		return // response lost
	}
	time.Sleep(time.Duration(r4+hold) * time.Millisecond)
	rpc.Respond(resp, err)
}

// dbg: diagnostic lines kept per case when VERIF_TRACE is set (written next to a failing availability check)
func (c *cluster) dbg(f string, a ...interface{}) {
	c.mu.Lock()
	c.dbgLines = append(c.dbgLines, fmt.Sprintf(f, a...))
	if len(c.dbgLines) > 2000 {
		c.dbgLines = c.dbgLines[len(c.dbgLines)-1500:]
	}
	c.mu.Unlock()
}

func (c *cluster) noteSender(from int, term uint64) {
	k := fmt.Sprintf("S %d %d", from, term)
	now := c.h.now()
	c.h.mu.Lock()
	if !c.h.seenS[k] {
		c.h.seenS[k] = true
		c.h.lines = append(c.h.lines, fmt.Sprintf("%s %d", k, now))
	}
	c.h.mu.Unlock()
}

func (c *cluster) startNode(n *cnode) {
	n.life++
	n.fsm = &cfsm{h: c.h, id: n.id, life: n.life, persist: time.Duration(c.rng.Intn(3)*c.rng.Intn(60)) * time.Millisecond}
	n.batching = c.rng.Intn(2) == 0
	if c.slowFSM && c.rng.Intn(2) == 0 {
		n.fsm.slow = time.Duration(1+c.rng.Intn(3)) * time.Millisecond
	}
	n.notify = make(chan bool, 1)
	go func(ch chan bool, id, life int) {
		for v := range ch {
			c.h.rec("N %d %d %d %d", id, life, b2i(v), c.h.now())
			if v {
				// was the server a voter of the configuration it was elected under?
				go func() {
					r := n.r
					if r == nil || n.life != life {
						return
					}
					f := r.GetConfiguration()
					if f.Error() != nil {
						return
					}
					start, ok := r.VerifLeaderStartIndex()
					c.h.rec("LV %d %d %d %d %d %d", id, life, b2i(raft.VerifHasVote(f.Configuration(), sidOf(id))), f.Index(), start, b2i(ok))
				}()
			}
		}
	}(n.notify, n.id, n.life)
	tmo := 80 * time.Millisecond
	if n.slowClock {
		tmo = 800 * time.Millisecond
	}
	_, n.trans = raft.NewInmemTransportWithTimeout(n.addr, tmo)
	for _, o := range c.nodes {
		if o == nil || o.id == n.id {
			continue
		}
		_, px := raft.NewInmemTransportWithTimeout(raft.ServerAddress(fmt.Sprintf("p%d-%d-%d", n.id, o.id, n.life)), tmo)
		n.trans.Connect(o.addr, px)
		go c.proxyLoop(n.id, o.id, px)
	}
	c.inj.Connect(n.addr, n.trans)
	if os.Getenv("VERIF_TRACE") != "" {
		c.dbg("t=%d connect %d life=%d", c.h.now(), n.id, n.life)
	}
	var theFSM raft.FSM = n.fsm
	if n.batching {
		theFSM = &cbfsm{n.fsm}
	}
	var r *raft.Raft
	var err error
	func() {
		defer func() {
			if p := recover(); p != nil {
				err = fmt.Errorf("panic: %v", p)
			}
		}()
		r, err = raft.NewRaft(c.conf(n.id, n), theFSM, n.st, n.st, n.snaps, n.trans)
	}()
	if err != nil {
		c.h.rec("X %d %d newraft-error", n.id, n.life)
		lo, _ := n.st.InmemStore.FirstIndex()
		hi, _ := n.st.InmemStore.LastIndex()
		var sn []string
		n.snaps.mu.Lock()
		for _, x := range n.snaps.snaps {
			sn = append(sn, fmt.Sprintf("(%d,%d)", x.meta.Index, x.meta.Term))
		}
		n.snaps.mu.Unlock()
		_ = os.WriteFile(fmt.Sprintf("%s.newraft.%d.%d.log", *flagOut, n.id, n.life),
			[]byte(fmt.Sprintf("error: %v\nstore first=%d last=%d snapshots=%v mono=%v track=%v\n", err, lo, hi, sn, n.st.mono, c.track)), 0o644)
		n.up = false
		return
	}
	n.r = r
	n.up = true
}

func (c *cluster) crash(n *cnode) {
	if !n.up {
		return
	}
	n.up = false
	f := n.r.Shutdown()
	done := make(chan struct{})
	go func() { _ = f.Error(); close(done) }()
	select {
	case <-done:
	case <-time.After(20 * time.Second):
		c.h.rec("Y %d %d", n.id, n.life) // Shutdown did not complete
		if os.Getenv("VERIF_TRACE") != "" {
			buf := make([]byte, 1<<20)
			buf = buf[:runtime.Stack(buf, true)]
			_ = os.WriteFile("/tmp/hung_full.log", buf, 0o644)
		}
	}
	c.inj.Disconnect(n.addr)
	if os.Getenv("VERIF_TRACE") != "" {
		c.dbg("t=%d disconnect %d life=%d", c.h.now(), n.id, n.life)
	}
	c.h.rec("Z %d %d %d", n.id, n.life, c.h.now())
}

func (c *cluster) leader() *cnode {
	for _, n := range c.nodes {
		if n != nil && n.up && n.r.State() == raft.Leader {
			return n
		}
	}
	return nil
}

// client call: runs in its own goroutine, records invoke/return in virtual ms; a call that has not
// resolved after 20 virtual seconds is recorded as stranded (code 10) and abandoned
func (c *cluster) apply(n *cnode, kind string) int { return c.callWith(n, kind, nil) }

func (c *cluster) callWith(n *cnode, kind string, fn func(r *raft.Raft) error) int {
	c.mu.Lock()
	c.pay++
	p := c.pay
	c.calls++
	cid := c.calls
	c.mu.Unlock()
	r := n.r
	life := n.life
	if kind == "t" {
		c.mu.Lock()
		c.lastTransfer = c.h.now()
		c.mu.Unlock()
	}
	c.wg.Add(1)
	go func() {
		defer c.wg.Done()
		t0 := c.h.now()
		c.h.rec("I %d", cid)
		type res struct {
			code int
			idx  uint64
			resp int
		}
		done := make(chan res, 1)
		go func() {
			out := res{resp: -1}
			switch kind {
			case "a":
				f := r.Apply([]byte(strconv.Itoa(p)), 20*time.Millisecond)
				out.code = errCode(f.Error())
				if out.code == 0 {
					out.idx = f.Index()
					if v, ok := f.Response().(int); ok {
						out.resp = v
					}
				}
			case "b":
				f := r.Barrier(20 * time.Millisecond)
				out.code = errCode(f.Error())
				if x, ok := f.(interface{ Index() uint64 }); ok && out.code == 0 {
					out.idx = x.Index()
				}
			case "v":
				out.idx = r.CurrentTerm() // the caller's term when the call is made
				out.code = errCode(r.VerifyLeader().Error())
			default:
				out.code = errCode(fn(r))
			}
			done <- out
		}()
		var o res
		select {
		case o = <-done:
		case <-time.After(20 * time.Second):
			o = res{code: 10, resp: -1} // never resolved
			if os.Getenv("VERIF_TRACE") != "" && (kind == "a" || kind == "m") {
				buf := make([]byte, 64<<20)
				buf = buf[:runtime.Stack(buf, true)]
				var keep []string
				for _, g := range strings.Split(string(buf), "\n\n") {
					if strings.Contains(g, "leaderLoop") || strings.Contains(g, "leadershipTransfer") || strings.Contains(g, "runLeader") || strings.Contains(g, "runFollower") || strings.Contains(g, "runCandidate") {
						keep = append(keep, g)
					}
				}
				_ = os.WriteFile("/tmp/strand.log", []byte(strings.Join(keep, "\n\n")), 0o644)
			}
		}
		c.h.rec("K %d %d %d %s %d %d %d %d %d %d", cid, n.id, life, kind, p, t0, c.h.now(), o.code, o.idx, o.resp)
		c.mu.Lock()
		if c.codes == nil {
			c.codes = map[int]int{}
		}
		c.codes[cid] = o.code
		c.mu.Unlock()
	}()
	return cid
}

// codeOf: the result code of a finished call (-1 while it is outstanding)
func (c *cluster) codeOf(cid int) int {
	c.mu.Lock()
	defer c.mu.Unlock()
	if v, ok := c.codes[cid]; ok {
		return v
	}
	return -1
}

// sample: one light record per running server (term, role, commit, last index, first index of its
// current term in its log, uncommitted configuration entries: all / of its current term, and the
// leader's commitment start index)
func (c *cluster) sample() {
	for _, n := range c.nodes[1:] {
		if n == nil || !n.up {
			continue
		}
		term := n.r.CurrentTerm()
		commit := n.r.CommitIndex()
		lo, _ := n.st.InmemStore.FirstIndex()
		hi, _ := n.st.InmemStore.LastIndex()
		own, ncfg, ncfgOwn := uint64(0), 0, 0
		if hi > lo && hi-lo >= 400 {
			lo = hi - 399 // only the last 400 entries are examined: report that as the lowest index seen
		}
		for i := hi; i >= lo && i > 0 && hi-i < 400; i-- {
			var l raft.Log
			if n.st.InmemStore.GetLog(i, &l) != nil {
				continue
			}
			if l.Term == term {
				own = i
			}
			if l.Type == raft.LogConfiguration && i > commit {
				ncfg++
				if l.Term == term {
					ncfgOwn++
				}
			}
		}
		start, isL := n.r.VerifLeaderStartIndex()
		c.h.rec("P %d %d %d %d %d %d %d %d %d %d %d %d %d", n.id, n.life, c.h.now(), term, int(n.r.State()), commit, n.r.LastIndex(), own, ncfg, ncfgOwn, start, b2i(isL), lo)
	}
}

func (c *cluster) isolate(id int, on bool) {
	c.mu.Lock()
	for o := 1; o < len(c.nodes); o++ {
		if o == id {
			continue
		}
		if on {
			c.blocked[[2]int{id, o}] = true
			c.blocked[[2]int{o, id}] = true
		} else {
			delete(c.blocked, [2]int{id, o})
			delete(c.blocked, [2]int{o, id})
		}
	}
	c.mu.Unlock()
	if on {
		c.h.rec("ISOL %d %d", id, c.h.now())
	} else {
		c.h.rec("UNISOL %d %d", id, c.h.now())
	}
}

// nonVoters: the servers n's own latest configuration lists as non-voters, and whether every server
// is a voter in it; ok=false if the configuration cannot be read
func (c *cluster) nonVoters(n *cnode) (nv []int, ok bool) {
	f := n.r.GetConfiguration()
	if f.Error() != nil {
		return nil, false
	}
	for _, sv := range f.Configuration().Servers {
		if sv.Suffrage != raft.Voter {
			for i := 1; i < len(c.nodes); i++ {
				if sidOf(i) == sv.ID {
					nv = append(nv, i)
				}
			}
		}
	}
	return nv, true
}

func (c *cluster) calm() bool {
	c.mu.Lock()
	defer c.mu.Unlock()
	return len(c.blocked) == 0 && c.dropPct == 0 && len(c.holdMs) == 0
}

func (c *cluster) dump(phase string) {
	for _, n := range c.nodes[1:] {
		if !n.up {
			c.h.rec("D %s %d %d down", phase, n.id, n.life)
			continue
		}
		lo, _ := n.st.InmemStore.FirstIndex()
		hi, _ := n.st.InmemStore.LastIndex()
		var es []string
		cnt := 0
		for i := lo; i <= hi && lo > 0; i++ {
			var l raft.Log
			if n.st.InmemStore.GetLog(i, &l) == nil {
				e := fromLog(&l)
				es = append(es, fmt.Sprintf("%d %d %d %d", e.idx, e.term, e.kind, e.data))
				cnt++
			}
		}
		st := n.fsm.snapshotState()
		la, _ := n.r.LeaderWithID()
		lead := 0
		if la != "" {
			x, _ := strconv.Atoi(string(la))
			lead = x - 10
		}
		if phase == "final" {
			// drain LeaderCh: 2 = nothing to read, else the last value read
			lc := 2
			for more := true; more; {
				select {
				case v := <-n.r.LeaderCh():
					lc = b2i(v)
				default:
					more = false
				}
			}
			c.h.rec("LC %d %d %d %d", n.id, n.life, lc, b2i(n.r.State() == raft.Leader))
		}
		snapIdx, _ := strconv.Atoi(n.r.Stats()["last_snapshot_index"])
		c.h.rec("D %s %d %d up %d %d %d %d %d %d %d %d %s %s", phase, n.id, n.life, n.r.CurrentTerm(), int(n.r.State()), n.r.CommitIndex(),
			n.r.AppliedIndex(), n.r.LastIndex(), lead, snapIdx, cnt, strings.Join(es, " "), intsTok(st))
	}
}

func runClusterCase(rng *rand.Rand, thorough bool, out *bufio.Writer, st *stats, caseNo int) {
	if os.Getenv("VERIF_TRACE") != "" {
		fmt.Fprintln(os.Stderr, "case", caseNo)
	}
	pick := rng.Intn(8)
	if os.Getenv("VERIF_VERIFY_VARIANT") != "" {
		pick = 0
	}
	switch pick {
	case 0:
		runVerifyLitmus(rng, out, st, caseNo)
		return
	case 1:
		runShutdownLitmus(rng, out, st, caseNo)
		return
	case 3:
		switch rng.Intn(4) {
		case 0, 1:
			runRejoinLitmus(rng, out, st, caseNo)
			return
		case 2:
			runPromotionLitmus(rng, out, st, caseNo)
			return
		case 3:
			runTransferLitmus(rng, out, st, caseNo)
			return
		}
	case 2:
		if rng.Intn(4) == 0 {
			runPairLitmus(rng, out, st, caseNo)
		} else {
			runJoinLitmus(rng, out, st, caseNo)
		}
		return
	}
	h := &hist{t0: time.Now(), seenS: map[string]bool{}}
	nsrv := 3
	if rng.Intn(3) == 0 {
		nsrv = 5
	}
	c := &cluster{rng: rng, h: h, blocked: map[[2]int]bool{}, holdMs: map[[2]int]int{}, delayMs: 2}
	c.pv2 = rng.Intn(6) == 0
	c.track = rng.Intn(4) == 0
	c.slowFSM = rng.Intn(3) == 0
	idIsAddr = c.pv2
	defer func() { idIsAddr = false }()
	st.Hist[fmt.Sprintf("flavour pv2=%v commit-tracking=%v slow-fsm=%v", c.pv2, c.track, c.slowFSM)]++
	c.legacy = !c.pv2 && rng.Intn(6) == 0
	c.batchCh = rng.Intn(3) == 0
	c.autoSnap = rng.Intn(3) == 0
	c.trailing = []uint64{0, 0, 1, 11}[rng.Intn(4)] // default 3, or 0, or 10
	c.maxAE = []int{0, 0, 1, 64}[rng.Intn(4)]
	c.noPV = map[int]bool{}
	if rng.Intn(4) == 0 {
		for i := 1; i <= nsrv; i++ {
			if rng.Intn(2) == 0 {
				c.noPV[i] = true
			}
		}
	}
	st.Hist[fmt.Sprintf("options batch-apply-ch=%v auto-snapshot=%v trailing=%d max-append=%d no-pre-vote=%d legacy-headers=%v", c.batchCh, c.autoSnap, c.trailing, c.maxAE, len(c.noPV), c.legacy)]++
	_, c.inj = raft.NewInmemTransportWithTimeout("inj", 80*time.Millisecond)
	mono := rng.Intn(3) == 0
	for i := 1; i <= nsrv; i++ {
		c.nodes = append(c.nodes, &cnode{id: i, addr: addrOf(i), st: &cstore{InmemStore: raft.NewInmemStore(), mono: mono}, snaps: &snapStore{c: &ctl{failAt: -1, crashAt: -1}}})
	}
	// make c.nodes addressable by id: pad index 0
	c.nodes = append([]*cnode{nil}, c.nodes...)
	var cfg raft.Configuration
	for _, n := range c.nodes[1:] {
		cfg.Servers = append(cfg.Servers, raft.Server{Suffrage: raft.Voter, ID: sidOf(n.id), Address: n.addr})
	}
	h.rec("C %d %d", nsrv, b2i(mono))
	for i := 1; i <= nsrv; i++ {
		if c.noPV[i] {
			h.rec("NOPV %d", i)
		}
	}
	for _, n := range c.nodes[1:] {
		c.startNodeP(n)
	}
	_ = c.nodes[1].r.BootstrapCluster(cfg).Error()
	time.Sleep(400 * time.Millisecond)
	steps := 40 + rng.Intn(80)
	if thorough {
		steps = 100 + rng.Intn(300)
	}
	up := func() []*cnode {
		var o []*cnode
		for _, n := range c.nodes[1:] {
			if n.up {
				o = append(o, n)
			}
		}
		return o
	}
	for s := 0; s < steps; s++ {
		ups := up()
		switch x := rng.Intn(100); {
		case x < 45: // client write, mostly at the leader
			var n *cnode
			if l := c.leader(); l != nil && rng.Intn(4) != 0 {
				n = l
			} else if len(ups) > 0 {
				n = ups[rng.Intn(len(ups))]
			}
			if n != nil {
				c.apply(n, "a")
				st.Hist["apply"]++
			}
		case x < 50:
			if l := c.leader(); l != nil {
				if rng.Intn(2) == 0 { // a burst of writes with the barrier right behind them
					for k, m := 0, 2+rng.Intn(5); k < m; k++ {
						c.apply(l, "a")
					}
					if rng.Intn(2) == 0 {
						synctest.Wait()
					}
				}
				c.apply(l, "b")
				st.Hist["barrier"]++
			}
		case x < 55:
			if len(ups) > 0 {
				n := ups[rng.Intn(len(ups))]
				switch rng.Intn(4) {
				case 0:
					c.callWith(n, "g", func(r *raft.Raft) error { return r.GetConfiguration().Error() })
					st.Hist["get-configuration"]++
				case 1:
					// bootstrapping a cluster that has state must be refused - and must resolve
					c.callWith(n, "g", func(r *raft.Raft) error {
						if err := r.BootstrapCluster(cfg).Error(); err == nil {
							return errors.New("bootstrap accepted on a server with state")
						}
						return nil
					})
					st.Hist["bootstrap-again"]++
				default:
					c.apply(n, "v")
					st.Hist["verify"]++
				}
			}
		case x < 63: // partition: cut a random directed or undirected pair / isolate a node
			a, b := 1+rng.Intn(nsrv), 1+rng.Intn(nsrv)
			c.mu.Lock()
			if rng.Intn(2) == 0 {
				for o := 1; o <= nsrv; o++ {
					c.blocked[[2]int{a, o}] = true
					c.blocked[[2]int{o, a}] = true
				}
				c.h.rec("ISOL %d %d", a, c.h.now())
				st.Hist["isolate"]++
			} else if a != b {
				c.blocked[[2]int{a, b}] = true
				if rng.Intn(2) == 0 {
					c.blocked[[2]int{b, a}] = true
				}
				st.Hist["cut-link"]++
			}
			c.mu.Unlock()
		case x < 70: // heal
			c.mu.Lock()
			c.blocked = map[[2]int]bool{}
			c.mu.Unlock()
			c.h.rec("HEALALL %d", c.h.now())
			st.Hist["heal"]++
		case x < 75: // network weather
			c.mu.Lock()
			c.delayMs = []int{1, 2, 5, 15, 40}[rng.Intn(5)]
			c.dropPct = []int{0, 0, 5, 20}[rng.Intn(4)]
			c.dupPct = []int{0, 10, 30}[rng.Intn(3)]
			c.mu.Unlock()
			st.Hist["weather"]++
		case x < 80: // crash / restart
			n := c.nodes[1+rng.Intn(nsrv)]
			if n.up && len(ups) > nsrv/2+1 || n.up && rng.Intn(4) == 0 {
				if rng.Intn(2) == 0 { // calls racing the shutdown
					for k := 0; k < 3; k++ {
						c.apply(n, "v")
					}
					c.apply(n, "a")
					c.callWith(n, "t", func(r *raft.Raft) error { return r.LeadershipTransfer().Error() })
					if rng.Intn(2) == 0 {
						c.callWith(n, "s", func(r *raft.Raft) error {
							err := r.Snapshot().Error()
							if errors.Is(err, raft.ErrNothingNewToSnapshot) {
								return nil
							}
							return err
						})
					}
					// let the calls get part of the way in before the shutdown lands (no virtual time passes)
					for k, m := 0, rng.Intn(40); k < m; k++ {
						runtime.Gosched()
					}
					st.Hist["calls-racing-shutdown"]++
				}
				c.crash(n)
				st.Hist["crash"]++
			} else if !n.up {
				c.startNodeP(n)
				st.Hist["restart"]++
			}
		case x < 85: // snapshot
			if len(ups) > 0 {
				n := ups[rng.Intn(len(ups))]
				c.callWith(n, "s", func(r *raft.Raft) error {
					err := r.Snapshot().Error()
					if errors.Is(err, raft.ErrNothingNewToSnapshot) {
						return nil
					}
					return err
				})
				st.Hist["snapshot"]++
			}
		case x < 88: // leadership transfer
			if l := c.leader(); l != nil {
				c.callWith(l, "t", func(r *raft.Raft) error { return r.LeadershipTransfer().Error() })
				st.Hist["transfer"]++
			}
		case x < 91: // a follower's disk fails a few writes
			if len(ups) > 0 {
				n := ups[rng.Intn(len(ups))]
				n.st.mu.Lock()
				n.st.failNext = 1 + rng.Intn(3)
				n.st.mu.Unlock()
				if rng.Intn(2) == 0 { // and its next snapshot cannot be finalized
					n.snaps.mu.Lock()
					n.snaps.failClose = 1
					n.snaps.mu.Unlock()
					if rng.Intn(2) == 0 {
						// ... a snapshot is attempted right now, and the server dies soon after: whatever it
						// compacted must have been covered by a snapshot that really is on disk
						c.callWith(n, "s", func(r *raft.Raft) error {
							err := r.Snapshot().Error()
							if errors.Is(err, raft.ErrNothingNewToSnapshot) {
								return nil
							}
							return err
						})
						time.Sleep(time.Duration(150+rng.Intn(100)) * time.Millisecond)
						c.crash(n)
						time.Sleep(50 * time.Millisecond)
						c.startNodeP(n)
						st.Hist["failed-snapshot-then-crash"]++
					}
				}
				st.Hist["disk-fault"]++
			}
		case x < 94: // membership: demote / promote the last server
			if l := c.leader(); l != nil && nsrv >= 3 {
				id := sidOf(nsrv)
				ad := addrOf(nsrv)
				demote := rng.Intn(2) == 0
				c.callWith(l, "m", func(r *raft.Raft) error {
					if demote {
						return r.DemoteVoter(id, 0, 20*time.Millisecond).Error()
					}
					return r.AddVoter(id, ad, 0, 20*time.Millisecond).Error()
				})
				st.Hist["membership"]++
			}
		case x < 96: // membership burst: two changes back to back while the leader cannot commit
			if l := c.leader(); l != nil && nsrv >= 3 {
				c.isolate(l.id, true)
				id, ad := sidOf(nsrv), addrOf(nsrv)
				for k := 0; k < 2; k++ {
					demote := k == 0
					c.callWith(l, "m", func(r *raft.Raft) error {
						if demote {
							return r.DemoteVoter(id, 0, 20*time.Millisecond).Error()
						}
						return r.AddVoter(id, ad, 0, 20*time.Millisecond).Error()
					})
					time.Sleep(time.Duration(2+rng.Intn(10)) * time.Millisecond)
					c.sample()
				}
				time.Sleep(time.Duration(rng.Intn(60)) * time.Millisecond)
				c.sample()
				c.isolate(l.id, false)
				st.Hist["membership-burst"]++
			}
		case x < 98: // leadership transfer to a server that is cut off at that very moment
			if l := c.leader(); l != nil && len(ups) > 1 {
				t := ups[rng.Intn(len(ups))]
				if t.id != l.id {
					tid, tad := sidOf(t.id), t.addr
					c.callWith(l, "t", func(r *raft.Raft) error { return r.LeadershipTransferToServer(tid, tad).Error() })
					time.Sleep(time.Duration(1+rng.Intn(8)) * time.Millisecond)
					c.isolate(t.id, true)
					for k := 0; k < 6; k++ {
						time.Sleep(100 * time.Millisecond)
						c.sample()
					}
					c.isolate(t.id, false)
					st.Hist["transfer-target-isolated"]++
				}
			}
		default:
			switch rng.Intn(4) {
			case 0: // a voter cut off from every other voter, but still connected to the non-voters (C14)
				if l := c.leader(); l != nil && len(ups) == nsrv {
					nv, ok := c.nonVoters(l)
					var x *cnode
					for _, cand := range ups {
						isNV := false
						for _, d := range nv {
							isNV = isNV || d == cand.id
						}
						if !isNV && (x == nil || rng.Intn(2) == 0) {
							x = cand
						}
					}
					// (not when one of those non-voters runs with pre-vote disabled: if it has missed its own
					// demotion it campaigns with real RequestVotes of ever higher terms, which x adopts before
					// it refuses the vote - term inflation by a server the property's premise excludes)
					anyNoPV := false
					for _, d := range nv {
						anyNoPV = anyNoPV || c.noPV[d]
					}
					if ok && len(nv) > 0 && x != nil && !anyNoPV {
						// x itself must know that they are non-voters
						nvx, okx := c.nonVoters(x)
						if okx && len(nvx) == len(nv) {
							c.mu.Lock()
							for o := 1; o < len(c.nodes); o++ {
								isNV := false
								for _, d := range nv {
									isNV = isNV || d == o
								}
								if o != x.id && !isNV {
									c.blocked[[2]int{x.id, o}] = true
									c.blocked[[2]int{o, x.id}] = true
								}
							}
							c.mu.Unlock()
							c.h.rec("ISOL %d %d", x.id, c.h.now())
							for k, m := 0, 3+rng.Intn(6); k < m; k++ {
								time.Sleep(100 * time.Millisecond)
								c.sample()
							}
							c.isolate(x.id, false)
							st.Hist["isolation-with-non-voters"]++
						}
					}
				}
			case 1: // C12: with one server (two of five) stopped and the network calm, the rest elects and accepts writes
				if l := c.leader(); l != nil && len(ups) == nsrv {
					nv, ok := c.nonVoters(l)
					if ok && len(nv) == 0 {
						c.mu.Lock()
						c.blocked = map[[2]int]bool{}
						c.delayMs, c.dropPct, c.dupPct = 2, 0, 0
						c.mu.Unlock()
						c.h.rec("HEALALL %d", c.h.now())
						for _, x := range c.nodes[1:] { // faults have stopped: no armed disk fault either
							x.st.mu.Lock()
							x.st.failNext = 0
							x.st.mu.Unlock()
							x.snaps.mu.Lock()
							x.snaps.failClose = 0
							x.snaps.mu.Unlock()
						}
						time.Sleep(300 * time.Millisecond) // everybody learns the configuration ...
						allKnow, someStale := true, false
						for _, x := range c.nodes[1:] { // ... all voters, everywhere?
							nvx, okx := c.nonVoters(x)
							if !x.up || !okx {
								allKnow = false
							} else if len(nvx) > 0 {
								someStale = true // this server has not learnt the committed configuration yet
							}
						}
						if lnow := c.leader(); lnow == nil {
							allKnow = false
						} else {
							sts := lnow.r.Stats()
							ci, _ := strconv.Atoi(sts["commit_index"])
							li, _ := strconv.Atoi(sts["latest_configuration_index"])
							if li > ci { // the configuration in force is not committed yet
								allKnow = false
							}
							if nvl, okl := c.nonVoters(lnow); !okl || len(nvl) > 0 {
								allKnow = false
							}
						}
						if !allKnow {
							st.Hist["majority-availability-check-skipped"]++
							break
						}
						var stopped []*cnode
						for k := 0; k < (nsrv-1)/2 && (k == 0 || rng.Intn(2) == 0); k++ {
							v := c.nodes[1+rng.Intn(nsrv)]
							if v.up {
								c.crash(v)
								stopped = append(stopped, v)
							}
						}
						time.Sleep(3 * time.Second)
						okW := 0
						if l2 := c.leader(); l2 != nil {
							cid := c.apply(l2, "a")
							time.Sleep(500 * time.Millisecond)
							if c.codeOf(cid) == 0 {
								okW = 1
							}
						}
						if someStale {
							// the known gap F20: a server that has not learnt a committed promotion refuses its
							// vote to the promoted server; recorded under its own name
							c.h.rec("MAJS %d %d %d", c.h.now(), len(stopped), okW)
						} else {
							c.h.rec("MAJ %d %d %d", c.h.now(), len(stopped), okW)
						}
						if okW == 0 {
							var b strings.Builder
							c.mu.Lock()
							for _, ln := range c.dbgLines {
								b.WriteString(ln + "\n")
							}
							c.mu.Unlock()
							for _, x := range c.nodes[1:] {
								fmt.Fprintf(&b, "==== server %d up=%v\n", x.id, x.up)
								x.rlog.mu.Lock()
								for _, ln := range x.rlog.lines {
									b.WriteString(ln)
								}
								x.rlog.mu.Unlock()
							}
							_ = os.WriteFile(fmt.Sprintf("%s.majfail.%d.log", *flagOut, caseNo), []byte(b.String()), 0o644)
						}
						for _, v := range stopped {
							c.startNodeP(v)
						}
						st.Hist["majority-availability-check"]++
					}
				}
			default: // a plain isolation of one server for a while (C14: its term must not move)
				if len(ups) > 0 {
					n := ups[rng.Intn(len(ups))]
					isoStart := c.h.now()
					c.isolate(n.id, true)
					for k, m := 0, 2+rng.Intn(6); k < m; k++ {
						time.Sleep(100 * time.Millisecond)
						c.sample()
					}
					c.isolate(n.id, false)
					st.Hist["isolation"]++
					c.mu.Lock()
					recentTransfer := c.lastTransfer > 0 && c.lastTransfer >= isoStart-1000
					c.mu.Unlock()
					if recentTransfer { // a transfer election (TimeoutNow) may legitimately have raised its term
						break
					}
					// C14: reconnecting does not disturb a healthy leader (calm network only)
					if l := c.leader(); l != nil && l.id != n.id && l.id != nsrv && c.calm() && len(ups) == nsrv {
						t0, term0 := c.h.now(), l.r.CurrentTerm()
						time.Sleep(400 * time.Millisecond)
						l2 := c.leader()
						lid, term1 := 0, uint64(0)
						if l2 != nil {
							lid, term1 = l2.id, l2.r.CurrentTerm()
						}
						if c.calm() {
							c.h.rec("REJOIN %d %d %d %d %d %d %d", n.id, t0, l.id, term0, c.h.now(), lid, term1)
							st.Hist["rejoin-check"]++
						}
					}
				}
			}
		}
		c.sample()
		time.Sleep(time.Duration(1+rng.Intn(40)) * time.Millisecond)
	}
	// quiet period: heal, restart everything, let it converge
	c.mu.Lock()
	c.blocked = map[[2]int]bool{}
	c.delayMs, c.dropPct, c.dupPct = 1, 0, 0
	c.mu.Unlock()
	for _, n := range c.nodes[1:] {
		n.st.mu.Lock()
		n.st.failNext = 0
		n.st.mu.Unlock()
		n.snaps.mu.Lock()
		n.snaps.failClose = 0
		n.snaps.mu.Unlock()
		if !n.up {
			c.startNodeP(n)
		}
	}
	h.rec("HEALALL %d", h.now())
	h.rec("Q %d", h.now())
	time.Sleep(15 * time.Second) // replication back-off reaches 10.24 s whatever the timeouts
	// final writes must succeed at the leader
	for k := 0; k < 3; k++ {
		if l := c.leader(); l != nil {
			c.apply(l, "a")
		}
		time.Sleep(300 * time.Millisecond)
	}
	time.Sleep(2 * time.Second)
	c.wg.Wait()
	c.dump("final")
	c.mu.Lock()
	c.stopped = true
	c.mu.Unlock()
	for _, n := range c.nodes[1:] {
		if n.up {
			c.crash(n)
		}
	}
	h.mu.Lock()
	lines := h.lines
	h.mu.Unlock()
	// one case = one line: events separated by " ; "
	fmt.Fprintf(out, "CL %d %d\n", caseNo, nsrv)
	fmt.Fprintln(out, strconv.Itoa(len(lines))+" ; "+strings.Join(lines, " ; "))
	st.Cases++
	st.Distinct++
	if len(st.Samples) < 2 {
		smp := strings.Join(lines, " ; ")
		if len(smp) > 700 {
			smp = smp[:700] + " ..."
		}
		st.Samples = append(st.Samples, smp)
	}
}

func (c *cluster) startNodeP(n *cnode) { c.startNode(n) }

// runVerifyLitmus: the two schedules under which VerifyLeader could succeed on a superseded leader
// (C09).  Server 1 has a slow clock (long timeouts) and is the leader.
//
//	variant A (non-voters): 5 servers, 4 and 5 demoted; {1,4,5} cut off from {2,3}; 2 and 3 elect a
//	  leader and commit; VerifyLeader on 1 while only the non-voters answer it.
//	variant B (stale acknowledgement): 3 servers; a heartbeat answer from 2 to 1 is held in the
//	  network; 1 is cut off; 2 and 3 elect a leader and commit; VerifyLeader on 1; the held answer
//	  arrives afterwards.
func runVerifyLitmus(rng *rand.Rand, out *bufio.Writer, st *stats, caseNo int) {
	h := &hist{t0: time.Now(), seenS: map[string]bool{}}
	variant := rng.Intn(4)
	if v := os.Getenv("VERIF_VERIFY_VARIANT"); v != "" { // debugging aid: force one litmus schedule
		variant, _ = strconv.Atoi(v)
	}
	// 0: non-voters (5 servers), 1: held acknowledgement (3), 2: uncommitted demotion (4), 3: held snapshot acknowledgement (3)
	variantA := variant == 0
	nsrv := 3
	if variantA {
		nsrv = 5
	}
	if variant == 2 {
		nsrv = 4
	}
	c := &cluster{rng: rng, h: h, blocked: map[[2]int]bool{}, holdMs: map[[2]int]int{}, delayMs: 1, litmus: true, verySlow: variant == 3}
	_, c.inj = raft.NewInmemTransportWithTimeout("inj", 800*time.Millisecond)
	c.nodes = []*cnode{nil}
	var cfg raft.Configuration
	for i := 1; i <= nsrv; i++ {
		n := &cnode{id: i, addr: addrOf(i), st: &cstore{InmemStore: raft.NewInmemStore()}, snaps: &snapStore{c: &ctl{failAt: -1, crashAt: -1}}, slowClock: i == 1}
		c.nodes = append(c.nodes, n)
		cfg.Servers = append(cfg.Servers, raft.Server{Suffrage: raft.Voter, ID: sidOf(i), Address: n.addr})
	}
	h.rec("C %d 0", nsrv)
	for _, n := range c.nodes[1:] {
		c.startNode(n)
	}
	_ = c.nodes[1].r.BootstrapCluster(cfg).Error()
	// make 1 the leader: the others' elections cannot win while 1 campaigns first?  Not guaranteed;
	// wait for any leader, then transfer leadership to 1.
	time.Sleep(1500 * time.Millisecond)
	for try := 0; try < 5; try++ {
		l := c.leader()
		if l == nil {
			time.Sleep(300 * time.Millisecond)
			continue
		}
		if l.id == 1 {
			break
		}
		_ = l.r.LeadershipTransferToServer(sidOf(1), addrOf(1)).Error()
		time.Sleep(500 * time.Millisecond)
	}
	l := c.leader()
	if l == nil || l.id != 1 {
		st.Hist["verify-litmus-setup-failed"]++
	} else {
		c.apply(l, "a")
		time.Sleep(100 * time.Millisecond)
		if variantA {
			_ = l.r.DemoteVoter(sidOf(4), 0, time.Second).Error()
			_ = l.r.DemoteVoter(sidOf(5), 0, time.Second).Error()
			time.Sleep(200 * time.Millisecond)
			c.mu.Lock()
			for _, a := range []int{1, 4, 5} {
				for _, b := range []int{2, 3} {
					c.blocked[[2]int{a, b}] = true
					c.blocked[[2]int{b, a}] = true
				}
			}
			c.mu.Unlock()
			// 2 and 3 elect (their timeouts are 100 ms) and commit; 1's lease is 300 ms
			time.Sleep(time.Duration(150+rng.Intn(120)) * time.Millisecond)
			for k := 2; k <= 3; k++ {
				if c.nodes[k].r.State() == raft.Leader {
					c.apply(c.nodes[k], "a")
				}
			}
			c.apply(c.nodes[1], "v")
			st.Hist["verify-litmus-nonvoters"]++
		} else if variant == 2 {
			// the demotion of 4 reaches 2 and 3 but their answers are lost, so it stays uncommitted on
			// the leader; then {1,4} | {2,3}: 2 and 3 are a majority of the new voter set
			c.mu.Lock()
			c.blocked[[2]int{2, 1}] = true
			c.blocked[[2]int{3, 1}] = true
			c.mu.Unlock()
			four := sidOf(4)
			c.callWith(l, "m", func(r *raft.Raft) error { return r.DemoteVoter(four, 0, 20*time.Millisecond).Error() })
			time.Sleep(40 * time.Millisecond)
			c.mu.Lock()
			for _, a := range []int{1, 4} {
				for _, b := range []int{2, 3} {
					c.blocked[[2]int{a, b}] = true
					c.blocked[[2]int{b, a}] = true
				}
			}
			c.mu.Unlock()
			time.Sleep(time.Duration(150+rng.Intn(120)) * time.Millisecond)
			for k := 2; k <= 3; k++ {
				if c.nodes[k].r.State() == raft.Leader {
					c.apply(c.nodes[k], "a")
				}
			}
			c.apply(c.nodes[1], "v")
			st.Hist["verify-litmus-uncommitted-demotion"]++
		} else if variant == 3 {
			// 2 falls so far behind that the leader must send it a snapshot; the answer to that
			// InstallSnapshot is held in the network while 1 is cut off and 2, 3 elect a new leader
			c.mu.Lock()
			c.blocked[[2]int{1, 2}] = true
			c.blocked[[2]int{2, 1}] = true
			c.mu.Unlock()
			for k := 0; k < 7; k++ {
				c.apply(l, "a")
				time.Sleep(15 * time.Millisecond)
			}
			_ = l.r.Snapshot().Error()
			hold := 400 + rng.Intn(150)
			c.mu.Lock()
			c.holdMs[[2]int{2, 1}] = hold
			delete(c.blocked, [2]int{1, 2})
			delete(c.blocked, [2]int{2, 1})
			c.mu.Unlock()
			// wait until 2 has taken the snapshot (its answer is now travelling)
			// (the leader's replication routine may still sit in a request to 2 that will time out)
			for w := 0; w < 2500; w += 5 {
				time.Sleep(5 * time.Millisecond)
				if c.nodes[2].r.AppliedIndex() >= 6 {
					break
				}
			}
			c.mu.Lock()
			for _, b := range []int{2, 3} {
				c.blocked[[2]int{1, b}] = true
				c.blocked[[2]int{b, 1}] = true // (the answer already travelling is not affected)
			}
			c.mu.Unlock()
			for w := 0; w < hold-60; w += 10 {
				time.Sleep(10 * time.Millisecond)
				for k := 2; k <= 3; k++ {
					if c.nodes[k].r.State() == raft.Leader {
						c.apply(c.nodes[k], "a")
						w = hold
						break
					}
				}
			}
			c.apply(c.nodes[1], "v")
			st.Hist["verify-litmus-held-snapshot-ack"]++
		} else {
			// hold every answer travelling from 2 to 1 for a while, then cut 1 off (requests only)
			hold := 200 + rng.Intn(150)
			c.mu.Lock()
			c.holdMs[[2]int{2, 1}] = hold
			c.mu.Unlock()
			time.Sleep(time.Duration(20+rng.Intn(30)) * time.Millisecond) // some heartbeat is now in flight
			c.mu.Lock()
			for _, b := range []int{2, 3} {
				c.blocked[[2]int{1, b}] = true
			}
			c.blocked[[2]int{3, 1}] = true
			c.mu.Unlock()
			// 2 and 3 stop hearing from 1, elect and commit
			for w := 0; w < hold-40; w += 10 {
				time.Sleep(10 * time.Millisecond)
				for k := 2; k <= 3; k++ {
					if c.nodes[k].r.State() == raft.Leader {
						c.apply(c.nodes[k], "a")
						w = hold
						break
					}
				}
			}
			c.apply(c.nodes[1], "v")
			st.Hist["verify-litmus-held-ack"]++
		}
	}
	time.Sleep(1500 * time.Millisecond)
	c.mu.Lock()
	c.blocked = map[[2]int]bool{}
	c.holdMs = map[[2]int]int{}
	c.mu.Unlock()
	h.rec("Q %d", h.now())
	time.Sleep(12 * time.Second)
	for k := 0; k < 3; k++ {
		if l := c.leader(); l != nil {
			c.apply(l, "a")
		}
		time.Sleep(300 * time.Millisecond)
	}
	time.Sleep(2 * time.Second)
	c.wg.Wait()
	c.dump("final")
	c.mu.Lock()
	c.stopped = true
	c.mu.Unlock()
	for _, n := range c.nodes[1:] {
		if n.up {
			c.crash(n)
		}
	}
	h.mu.Lock()
	lines := h.lines
	h.mu.Unlock()
	fmt.Fprintf(out, "CL %d %d\n", caseNo, nsrv)
	fmt.Fprintln(out, strconv.Itoa(len(lines))+" ; "+strings.Join(lines, " ; "))
	st.Cases++
	st.Distinct++
}

// runShutdownLitmus (C17): every kind of call is fired at one server and Shutdown lands while they are
// part of the way in (a random number of scheduler yields, or a few virtual milliseconds, later).  All
// calls must resolve and Shutdown() itself must complete; the server is restarted afterwards and the
// usual end-of-run monitors apply.
func runShutdownLitmus(rng *rand.Rand, out *bufio.Writer, st *stats, caseNo int) {
	h := &hist{t0: time.Now(), seenS: map[string]bool{}}
	nsrv := 3
	c := &cluster{rng: rng, h: h, blocked: map[[2]int]bool{}, holdMs: map[[2]int]int{}, delayMs: 1 + rng.Intn(3)}
	_, c.inj = raft.NewInmemTransportWithTimeout("inj", 80*time.Millisecond)
	c.nodes = []*cnode{nil}
	var cfg raft.Configuration
	for i := 1; i <= nsrv; i++ {
		n := &cnode{id: i, addr: addrOf(i), st: &cstore{InmemStore: raft.NewInmemStore()}, snaps: &snapStore{c: &ctl{failAt: -1, crashAt: -1}}}
		c.nodes = append(c.nodes, n)
		cfg.Servers = append(cfg.Servers, raft.Server{Suffrage: raft.Voter, ID: sidOf(i), Address: n.addr})
	}
	h.rec("C %d 0", nsrv)
	for _, n := range c.nodes[1:] {
		c.startNodeP(n)
	}
	_ = c.nodes[1].r.BootstrapCluster(cfg).Error()
	time.Sleep(500 * time.Millisecond)
	snapErr := func(r *raft.Raft) error {
		err := r.Snapshot().Error()
		if errors.Is(err, raft.ErrNothingNewToSnapshot) {
			return nil
		}
		return err
	}
	for round, rounds := 0, 1+rng.Intn(3); round < rounds; round++ {
		for k, m := 0, 2+rng.Intn(6); k < m; k++ {
			if l := c.leader(); l != nil {
				c.apply(l, "a")
			}
			time.Sleep(time.Duration(5+rng.Intn(30)) * time.Millisecond)
		}
		n := c.nodes[1+rng.Intn(nsrv)]
		if l := c.leader(); l != nil && rng.Intn(2) == 0 {
			n = l
		}
		if !n.up {
			continue
		}
		if rng.Intn(3) == 0 { // a lagging follower that will be sent a snapshot when it is back in touch
			if l := c.leader(); l != nil && l != n {
				c.mu.Lock()
				c.blocked[[2]int{l.id, n.id}] = true
				c.blocked[[2]int{n.id, l.id}] = true
				c.mu.Unlock()
				for k := 0; k < 4; k++ {
					c.apply(l, "a")
					time.Sleep(10 * time.Millisecond)
				}
				c.callWith(l, "s", snapErr)
				time.Sleep(300 * time.Millisecond)
				c.mu.Lock()
				c.blocked = map[[2]int]bool{}
				c.mu.Unlock()
				time.Sleep(time.Duration(rng.Intn(60)) * time.Millisecond)
				st.Hist["shutdown-litmus-while-catching-up"]++
			}
		}
		for k, m := 0, 1+rng.Intn(4); k < m; k++ {
			switch rng.Intn(7) {
			case 0:
				c.callWith(n, "s", snapErr)
			case 1:
				c.apply(n, "a")
			case 2:
				c.apply(n, "b")
			case 3:
				c.apply(n, "v")
			case 4:
				c.callWith(n, "t", func(r *raft.Raft) error { return r.LeadershipTransfer().Error() })
			case 5:
				c.callWith(n, "g", func(r *raft.Raft) error { return r.GetConfiguration().Error() })
			case 6:
				c.callWith(n, "s", snapErr)
				c.callWith(n, "s", snapErr)
			}
		}
		if rng.Intn(3) == 0 {
			time.Sleep(time.Duration(rng.Intn(4)) * time.Millisecond)
		} else {
			for k, m := 0, rng.Intn(60); k < m; k++ {
				runtime.Gosched()
			}
		}
		c.crash(n)
		st.Hist["shutdown-litmus"]++
		// calls on a server that has been shut down
		c.apply(n, "a")
		c.apply(n, "v")
		c.callWith(n, "s", snapErr)
		time.Sleep(time.Duration(200+rng.Intn(600)) * time.Millisecond)
		c.startNodeP(n)
		time.Sleep(time.Duration(200+rng.Intn(600)) * time.Millisecond)
	}
	h.rec("Q %d", h.now())
	time.Sleep(15 * time.Second)
	for k := 0; k < 3; k++ {
		if l := c.leader(); l != nil {
			c.apply(l, "a")
		}
		time.Sleep(300 * time.Millisecond)
	}
	time.Sleep(2 * time.Second)
	c.wg.Wait()
	c.dump("final")
	c.mu.Lock()
	c.stopped = true
	c.mu.Unlock()
	for _, n := range c.nodes[1:] {
		if n.up {
			c.crash(n)
		}
	}
	h.mu.Lock()
	lines := h.lines
	h.mu.Unlock()
	fmt.Fprintf(out, "CL %d %d\n", caseNo, nsrv)
	fmt.Fprintln(out, strconv.Itoa(len(lines))+" ; "+strings.Join(lines, " ; "))
	st.Cases++
	st.Distinct++
}

// runJoinLitmus (C02/C12/C07): a fourth, empty server joins a cluster whose log has been compacted behind
// a snapshot, so it must be brought in by InstallSnapshot - optionally at the very moment the leader
// is finalising a newer snapshot (sink closed and listed, position not yet recorded), or while the
// leader / the joiner is stopped and restarted.
func runJoinLitmus(rng *rand.Rand, out *bufio.Writer, st *stats, caseNo int) {
	h := &hist{t0: time.Now(), seenS: map[string]bool{}}
	nsrv := 4
	c := &cluster{rng: rng, h: h, blocked: map[[2]int]bool{}, holdMs: map[[2]int]int{}, delayMs: 1 + rng.Intn(3)}
	c.slowFSM = rng.Intn(3) == 0
	_, c.inj = raft.NewInmemTransportWithTimeout("inj", 80*time.Millisecond)
	c.nodes = []*cnode{nil}
	var cfg raft.Configuration
	mono := rng.Intn(3) == 0
	for i := 1; i <= nsrv; i++ {
		n := &cnode{id: i, addr: addrOf(i), st: &cstore{InmemStore: raft.NewInmemStore(), mono: mono}, snaps: &snapStore{c: &ctl{failAt: -1, crashAt: -1}}}
		c.nodes = append(c.nodes, n)
		if i < nsrv {
			cfg.Servers = append(cfg.Servers, raft.Server{Suffrage: raft.Voter, ID: sidOf(i), Address: n.addr})
		}
	}
	h.rec("C %d %d", nsrv, b2i(mono))
	for _, n := range c.nodes[1:] {
		c.startNodeP(n)
	}
	_ = c.nodes[1].r.BootstrapCluster(cfg).Error()
	time.Sleep(500 * time.Millisecond)
	writes := func(m int) {
		for k := 0; k < m; k++ {
			if l := c.leader(); l != nil {
				c.apply(l, "a")
			}
			time.Sleep(time.Duration(3+rng.Intn(20)) * time.Millisecond)
		}
	}
	snapErr := func(r *raft.Raft) error {
		err := r.Snapshot().Error()
		if errors.Is(err, raft.ErrNothingNewToSnapshot) {
			return nil
		}
		return err
	}
	writes(4 + rng.Intn(6))
	if l := c.leader(); l != nil {
		_ = snapErr(l.r) // the first snapshot: the log is compacted behind it (TrailingLogs = 3)
	}
	writes(4 + rng.Intn(6))
	joiner := c.nodes[nsrv]
	add := func() {
		for try := 0; try < 6; try++ {
			l := c.leader()
			if l == nil {
				time.Sleep(200 * time.Millisecond)
				continue
			}
			var err error
			if rng.Intn(2) == 0 {
				err = l.r.AddVoter(sidOf(joiner.id), joiner.addr, 0, time.Second).Error()
			} else {
				err = l.r.AddNonvoter(sidOf(joiner.id), joiner.addr, 0, time.Second).Error()
			}
			if err == nil {
				return
			}
			time.Sleep(200 * time.Millisecond)
		}
	}
	variant := []int{0, 1, 1, 2, 3}[rng.Intn(5)]
	switch variant {
	case 0: // plain
		add()
	case 1: // the leader is finalising a newer snapshot when the joiner asks for one
		if l := c.leader(); l != nil {
			l.snaps.mu.Lock()
			l.snaps.closeDelay = time.Duration(100+rng.Intn(300)) * time.Millisecond
			l.snaps.mu.Unlock()
			c.callWith(l, "s", snapErr)
			for k := 0; k < 200; k++ {
				l.snaps.mu.Lock()
				closing := l.snaps.closing
				l.snaps.mu.Unlock()
				if closing {
					break
				}
				time.Sleep(2 * time.Millisecond)
			}
			add()
			l.snaps.mu.Lock()
			l.snaps.closeDelay = 0
			l.snaps.mu.Unlock()
		}
	case 2: // the leader is stopped while the joiner is being brought in
		l := c.leader()
		go add()
		time.Sleep(time.Duration(rng.Intn(30)) * time.Millisecond)
		if l != nil {
			c.crash(l)
			time.Sleep(time.Duration(300+rng.Intn(400)) * time.Millisecond)
			c.startNodeP(l)
		}
		time.Sleep(1500 * time.Millisecond)
	default: // the joiner is stopped while it is being brought in
		go add()
		time.Sleep(time.Duration(rng.Intn(30)) * time.Millisecond)
		c.crash(joiner)
		time.Sleep(time.Duration(300+rng.Intn(400)) * time.Millisecond)
		c.startNodeP(joiner)
		time.Sleep(1500 * time.Millisecond)
	}
	st.Hist[fmt.Sprintf("join-litmus-%d", variant)]++
	writes(3 + rng.Intn(5))
	// make sure the joiner is a member before the quiet period (the final monitors expect every server to hold the history)
	for try := 0; try < 5; try++ {
		l := c.leader()
		if l == nil {
			time.Sleep(300 * time.Millisecond)
			continue
		}
		f := l.r.GetConfiguration()
		in := false
		if f.Error() == nil {
			for _, s := range f.Configuration().Servers {
				if s.ID == sidOf(joiner.id) {
					in = true
				}
			}
		}
		if in {
			break
		}
		_ = l.r.AddNonvoter(sidOf(joiner.id), joiner.addr, 0, time.Second).Error()
		time.Sleep(300 * time.Millisecond)
	}
	for _, n := range c.nodes[1:] {
		if !n.up {
			c.startNodeP(n)
		}
	}
	h.rec("HEALALL %d", h.now())
	h.rec("Q %d", h.now())
	time.Sleep(15 * time.Second)
	for k := 0; k < 3; k++ {
		if l := c.leader(); l != nil {
			c.apply(l, "a")
		}
		time.Sleep(300 * time.Millisecond)
	}
	time.Sleep(2 * time.Second)
	c.wg.Wait()
	c.dump("final")
	c.mu.Lock()
	c.stopped = true
	c.mu.Unlock()
	for _, n := range c.nodes[1:] {
		if n.up {
			c.crash(n)
		}
	}
	h.mu.Lock()
	lines := h.lines
	h.mu.Unlock()
	fmt.Fprintf(out, "CL %d %d\n", caseNo, nsrv)
	fmt.Fprintln(out, strconv.Itoa(len(lines))+" ; "+strings.Join(lines, " ; "))
	st.Cases++
	st.Distinct++
}

// runPairLitmus (C07/C01): one voter and one non-voter.  Leadership is "transferred" to the non-voter
// (LeadershipTransferToServer does not look at suffrage; the target gets TimeoutNow and campaigns
// without a pre-vote): it must never be elected, and the voter keeps or regains leadership.
func runPairLitmus(rng *rand.Rand, out *bufio.Writer, st *stats, caseNo int) {
	h := &hist{t0: time.Now(), seenS: map[string]bool{}}
	nsrv := 2
	c := &cluster{rng: rng, h: h, blocked: map[[2]int]bool{}, holdMs: map[[2]int]int{}, delayMs: 1 + rng.Intn(3)}
	_, c.inj = raft.NewInmemTransportWithTimeout("inj", 80*time.Millisecond)
	c.nodes = []*cnode{nil}
	for i := 1; i <= nsrv; i++ {
		c.nodes = append(c.nodes, &cnode{id: i, addr: addrOf(i), st: &cstore{InmemStore: raft.NewInmemStore()}, snaps: &snapStore{c: &ctl{failAt: -1, crashAt: -1}}})
	}
	startAsNonvoter := rng.Intn(2) == 0
	cfg := raft.Configuration{Servers: []raft.Server{{Suffrage: raft.Voter, ID: sidOf(1), Address: addrOf(1)}}}
	if startAsNonvoter {
		cfg.Servers = append(cfg.Servers, raft.Server{Suffrage: raft.Nonvoter, ID: sidOf(2), Address: addrOf(2)})
	} else {
		cfg.Servers = append(cfg.Servers, raft.Server{Suffrage: raft.Voter, ID: sidOf(2), Address: addrOf(2)})
	}
	h.rec("C %d 0", nsrv)
	for _, n := range c.nodes[1:] {
		c.startNodeP(n)
	}
	_ = c.nodes[1].r.BootstrapCluster(cfg).Error()
	time.Sleep(500 * time.Millisecond)
	writes := func(m int) {
		for k := 0; k < m; k++ {
			if l := c.leader(); l != nil {
				c.apply(l, "a")
			}
			time.Sleep(time.Duration(3+rng.Intn(20)) * time.Millisecond)
		}
	}
	writes(2 + rng.Intn(4))
	if !startAsNonvoter {
		// make server 1 the leader, then demote 2
		for try := 0; try < 5; try++ {
			l := c.leader()
			if l == nil {
				time.Sleep(200 * time.Millisecond)
				continue
			}
			if l.id != 1 {
				_ = l.r.LeadershipTransferToServer(sidOf(1), addrOf(1)).Error()
				time.Sleep(300 * time.Millisecond)
				continue
			}
			_ = l.r.DemoteVoter(sidOf(2), 0, time.Second).Error()
			break
		}
		time.Sleep(200 * time.Millisecond)
	}
	for round, rounds := 0, 1+rng.Intn(3); round < rounds; round++ {
		if l := c.leader(); l != nil && l.id == 1 {
			two, twoAddr := sidOf(2), addrOf(2)
			c.callWith(l, "t", func(r *raft.Raft) error { return r.LeadershipTransferToServer(two, twoAddr).Error() })
			st.Hist["pair-litmus-transfer-to-non-voter"]++
		}
		for k := 0; k < 8; k++ {
			time.Sleep(100 * time.Millisecond)
			c.sample()
		}
		writes(1 + rng.Intn(3))
	}
	h.rec("HEALALL %d", h.now())
	h.rec("Q %d", h.now())
	time.Sleep(15 * time.Second)
	for k := 0; k < 3; k++ {
		if l := c.leader(); l != nil {
			c.apply(l, "a")
		}
		time.Sleep(300 * time.Millisecond)
	}
	time.Sleep(2 * time.Second)
	c.wg.Wait()
	c.dump("final")
	c.mu.Lock()
	c.stopped = true
	c.mu.Unlock()
	for _, n := range c.nodes[1:] {
		if n.up {
			c.crash(n)
		}
	}
	h.mu.Lock()
	lines := h.lines
	h.mu.Unlock()
	fmt.Fprintf(out, "CL %d %d\n", caseNo, nsrv)
	fmt.Fprintln(out, strconv.Itoa(len(lines))+" ; "+strings.Join(lines, " ; "))
	st.Cases++
	st.Distinct++
}

// runRejoinLitmus (C14): a follower is cut off for a while and reconnects in stages - first to the
// other follower(s), a little later to the leader - on an otherwise calm network, optionally with a
// leader whose requests carry only the deprecated Leader field (an older release).  It must rejoin
// without unseating the leader or moving the term; while cut off its term must not move.
func runRejoinLitmus(rng *rand.Rand, out *bufio.Writer, st *stats, caseNo int) {
	h := &hist{t0: time.Now(), seenS: map[string]bool{}}
	nsrv := 3
	if rng.Intn(3) == 0 {
		nsrv = 5
	}
	c := &cluster{rng: rng, h: h, blocked: map[[2]int]bool{}, holdMs: map[[2]int]int{}, delayMs: 1 + rng.Intn(3)}
	c.legacy = rng.Intn(2) == 0
	_, c.inj = raft.NewInmemTransportWithTimeout("inj", 80*time.Millisecond)
	c.nodes = []*cnode{nil}
	var cfg raft.Configuration
	for i := 1; i <= nsrv; i++ {
		c.nodes = append(c.nodes, &cnode{id: i, addr: addrOf(i), st: &cstore{InmemStore: raft.NewInmemStore()}, snaps: &snapStore{c: &ctl{failAt: -1, crashAt: -1}}})
		cfg.Servers = append(cfg.Servers, raft.Server{Suffrage: raft.Voter, ID: sidOf(i), Address: addrOf(i)})
	}
	h.rec("C %d 0", nsrv)
	for _, n := range c.nodes[1:] {
		c.startNodeP(n)
	}
	_ = c.nodes[1].r.BootstrapCluster(cfg).Error()
	time.Sleep(500 * time.Millisecond)
	for round, rounds := 0, 1+rng.Intn(3); round < rounds; round++ {
		l := c.leader()
		if l == nil {
			time.Sleep(300 * time.Millisecond)
			continue
		}
		writes := rng.Intn(3)
		for k := 0; k < writes; k++ {
			c.apply(l, "a")
			time.Sleep(10 * time.Millisecond)
		}
		x := c.nodes[1+rng.Intn(nsrv)]
		if x.id == l.id {
			continue
		}
		c.isolate(x.id, true)
		idle := rng.Intn(2) == 0 // nothing is written while it is away: its log stays equal to the others'
		for k, m := 0, 3+rng.Intn(6); k < m; k++ {
			time.Sleep(100 * time.Millisecond)
			if !idle && k%2 == 0 {
				c.apply(l, "a")
			}
			c.sample()
		}
		// back in touch with the other followers first ...
		c.mu.Lock()
		for o := 1; o <= nsrv; o++ {
			if o != x.id && o != l.id {
				delete(c.blocked, [2]int{x.id, o})
				delete(c.blocked, [2]int{o, x.id})
			}
		}
		c.mu.Unlock()
		c.h.rec("UNISOL %d %d", x.id, c.h.now())
		term0 := l.r.CurrentTerm()
		t0 := c.h.now()
		time.Sleep(time.Duration(20+rng.Intn(150)) * time.Millisecond)
		// ... then with the leader
		c.mu.Lock()
		c.blocked = map[[2]int]bool{}
		c.mu.Unlock()
		time.Sleep(500 * time.Millisecond)
		l2 := c.leader()
		lid, term1 := 0, uint64(0)
		if l2 != nil {
			lid, term1 = l2.id, l2.r.CurrentTerm()
		}
		c.h.rec("REJOIN %d %d %d %d %d %d %d", x.id, t0, l.id, term0, c.h.now(), lid, term1)
		st.Hist[fmt.Sprintf("rejoin-litmus legacy-headers=%v idle=%v", c.legacy, idle)]++
	}
	h.rec("HEALALL %d", h.now())
	h.rec("Q %d", h.now())
	time.Sleep(15 * time.Second)
	for k := 0; k < 3; k++ {
		if l := c.leader(); l != nil {
			c.apply(l, "a")
		}
		time.Sleep(300 * time.Millisecond)
	}
	time.Sleep(2 * time.Second)
	c.wg.Wait()
	c.dump("final")
	c.mu.Lock()
	c.stopped = true
	c.mu.Unlock()
	for _, n := range c.nodes[1:] {
		if n.up {
			c.crash(n)
		}
	}
	h.mu.Lock()
	lines := h.lines
	h.mu.Unlock()
	fmt.Fprintf(out, "CL %d %d\n", caseNo, nsrv)
	fmt.Fprintln(out, strconv.Itoa(len(lines))+" ; "+strings.Join(lines, " ; "))
	st.Cases++
	st.Distinct++
}

// runPromotionLitmus (C12): server 3 starts as a non-voter and is cut off; the leader promotes it with
// the other voter's help; the leader is stopped; 3 is reconnected.  The two running servers are a
// majority of the committed configuration: the voter among them must be elected with the vote of 3,
// although 3 has not heard of its own promotion (and, not being a voter as far as it knows, does not
// campaign itself).
func runPromotionLitmus(rng *rand.Rand, out *bufio.Writer, st *stats, caseNo int) {
	h := &hist{t0: time.Now(), seenS: map[string]bool{}}
	nsrv := 3
	c := &cluster{rng: rng, h: h, blocked: map[[2]int]bool{}, holdMs: map[[2]int]int{}, delayMs: 1 + rng.Intn(3)}
	_, c.inj = raft.NewInmemTransportWithTimeout("inj", 80*time.Millisecond)
	c.nodes = []*cnode{nil}
	var cfg raft.Configuration
	for i := 1; i <= nsrv; i++ {
		c.nodes = append(c.nodes, &cnode{id: i, addr: addrOf(i), st: &cstore{InmemStore: raft.NewInmemStore()}, snaps: &snapStore{c: &ctl{failAt: -1, crashAt: -1}}})
		suff := raft.Voter
		if i == 3 {
			suff = raft.Nonvoter
		}
		cfg.Servers = append(cfg.Servers, raft.Server{Suffrage: suff, ID: sidOf(i), Address: addrOf(i)})
	}
	h.rec("C %d 0", nsrv)
	for _, n := range c.nodes[1:] {
		c.startNodeP(n)
	}
	_ = c.nodes[1].r.BootstrapCluster(cfg).Error()
	time.Sleep(600 * time.Millisecond)
	for k, m := 0, 1+rng.Intn(4); k < m; k++ {
		if l := c.leader(); l != nil {
			c.apply(l, "a")
		}
		time.Sleep(20 * time.Millisecond)
	}
	if l := c.leader(); l != nil {
		c.isolate(3, true)
		time.Sleep(time.Duration(rng.Intn(200)) * time.Millisecond)
		err := l.r.AddVoter(sidOf(3), addrOf(3), 0, time.Second).Error()
		time.Sleep(100 * time.Millisecond)
		if err == nil {
			c.crash(l)
			time.Sleep(time.Duration(rng.Intn(300)) * time.Millisecond)
			c.isolate(3, false)
			time.Sleep(3 * time.Second)
			okW := 0
			if l2 := c.leader(); l2 != nil {
				cid := c.apply(l2, "a")
				time.Sleep(500 * time.Millisecond)
				if c.codeOf(cid) == 0 {
					okW = 1
				}
			}
			c.h.rec("MAJ %d %d %d", c.h.now(), 1, okW)
			st.Hist["promotion-litmus"]++
			c.startNodeP(l)
		} else {
			c.isolate(3, false)
		}
	}
	h.rec("HEALALL %d", h.now())
	h.rec("Q %d", h.now())
	time.Sleep(15 * time.Second)
	for k := 0; k < 3; k++ {
		if l := c.leader(); l != nil {
			c.apply(l, "a")
		}
		time.Sleep(300 * time.Millisecond)
	}
	time.Sleep(2 * time.Second)
	c.wg.Wait()
	c.dump("final")
	c.mu.Lock()
	c.stopped = true
	c.mu.Unlock()
	for _, n := range c.nodes[1:] {
		if n.up {
			c.crash(n)
		}
	}
	h.mu.Lock()
	lines := h.lines
	h.mu.Unlock()
	fmt.Fprintf(out, "CL %d %d\n", caseNo, nsrv)
	fmt.Fprintln(out, strconv.Itoa(len(lines))+" ; "+strings.Join(lines, " ; "))
	st.Cases++
	st.Distinct++
}

// runTransferLitmus (C12/C17): leadership is transferred twice in a row to a follower the leader
// cannot reach (its replication routine is backing off), the leader then loses leadership, and later
// leads again: it must accept writes (a transfer that can never finish must not leave the server
// refusing writes "leadership transfer in progress" for ever).
func runTransferLitmus(rng *rand.Rand, out *bufio.Writer, st *stats, caseNo int) {
	h := &hist{t0: time.Now(), seenS: map[string]bool{}}
	nsrv := 3
	c := &cluster{rng: rng, h: h, blocked: map[[2]int]bool{}, holdMs: map[[2]int]int{}, delayMs: 1 + rng.Intn(3)}
	_, c.inj = raft.NewInmemTransportWithTimeout("inj", 80*time.Millisecond)
	c.nodes = []*cnode{nil}
	var cfg raft.Configuration
	for i := 1; i <= nsrv; i++ {
		c.nodes = append(c.nodes, &cnode{id: i, addr: addrOf(i), st: &cstore{InmemStore: raft.NewInmemStore()}, snaps: &snapStore{c: &ctl{failAt: -1, crashAt: -1}}})
		cfg.Servers = append(cfg.Servers, raft.Server{Suffrage: raft.Voter, ID: sidOf(i), Address: addrOf(i)})
	}
	h.rec("C %d 0", nsrv)
	for _, n := range c.nodes[1:] {
		c.startNodeP(n)
	}
	_ = c.nodes[1].r.BootstrapCluster(cfg).Error()
	time.Sleep(500 * time.Millisecond)
	var old *cnode
	if l := c.leader(); l != nil {
		old = l
		f := c.nodes[1+rng.Intn(nsrv)]
		for f.id == l.id {
			f = c.nodes[1+rng.Intn(nsrv)]
		}
		c.mu.Lock()
		c.blocked[[2]int{l.id, f.id}] = true
		c.blocked[[2]int{f.id, l.id}] = true
		c.mu.Unlock()
		for k := 0; k < 6; k++ { // entries the follower misses; the leader's routine for it backs off
			c.apply(l, "a")
			time.Sleep(time.Duration(40+rng.Intn(60)) * time.Millisecond)
		}
		fid, fad := sidOf(f.id), f.addr
		for k, m := 0, 2+rng.Intn(2); k < m; k++ {
			c.callWith(l, "t", func(r *raft.Raft) error { return r.LeadershipTransferToServer(fid, fad).Error() })
			time.Sleep(time.Duration(55+rng.Intn(40)) * time.Millisecond)
		}
		// the leader loses leadership
		c.isolate(l.id, true)
		time.Sleep(500 * time.Millisecond)
		c.mu.Lock()
		c.blocked = map[[2]int]bool{}
		c.mu.Unlock()
		c.h.rec("UNISOL %d %d", l.id, c.h.now())
		st.Hist["transfer-litmus"]++
	}
	h.rec("HEALALL %d", h.now())
	time.Sleep(1500 * time.Millisecond)
	// the old leader is made leader again
	for try := 0; try < 6 && old != nil; try++ {
		l := c.leader()
		if l == nil {
			time.Sleep(300 * time.Millisecond)
			continue
		}
		if l.id == old.id {
			break
		}
		_ = l.r.LeadershipTransferToServer(sidOf(old.id), old.addr).Error()
		time.Sleep(400 * time.Millisecond)
	}
	h.rec("Q %d", h.now())
	time.Sleep(15 * time.Second)
	for k := 0; k < 3; k++ {
		if l := c.leader(); l != nil {
			c.apply(l, "a")
		}
		time.Sleep(300 * time.Millisecond)
	}
	time.Sleep(2 * time.Second)
	c.wg.Wait()
	c.dump("final")
	c.mu.Lock()
	c.stopped = true
	c.mu.Unlock()
	for _, n := range c.nodes[1:] {
		if n.up {
			c.crash(n)
		}
	}
	h.mu.Lock()
	lines := h.lines
	h.mu.Unlock()
	fmt.Fprintf(out, "CL %d %d\n", caseNo, nsrv)
	fmt.Fprintln(out, strconv.Itoa(len(lines))+" ; "+strings.Join(lines, " ; "))
	st.Cases++
	st.Distinct++
}

// runLeaseCase (C13): (a) isolate the leader completely at instant T and watch when it gives up
// leadership; (b) a long fault-free stretch in which leadership must not change.
func runLeaseCase(rng *rand.Rand, out *bufio.Writer, st *stats, caseNo int) {
	h := &hist{t0: time.Now(), seenS: map[string]bool{}}
	nsrv := 3 + 2*rng.Intn(2)
	c := &cluster{rng: rng, h: h, blocked: map[[2]int]bool{}, holdMs: map[[2]int]int{}, delayMs: 1 + rng.Intn(4), hbLong: rng.Intn(3) == 0}
	selfDemote := nsrv == 3 && rng.Intn(3) == 0
	_, c.inj = raft.NewInmemTransportWithTimeout("inj", 80*time.Millisecond)
	c.nodes = []*cnode{nil}
	var cfg raft.Configuration
	for i := 1; i <= nsrv; i++ {
		n := &cnode{id: i, addr: addrOf(i), st: &cstore{InmemStore: raft.NewInmemStore()}, snaps: &snapStore{c: &ctl{failAt: -1, crashAt: -1}}}
		c.nodes = append(c.nodes, n)
		suff := raft.Voter
		if nsrv == 5 && i == 5 && rng.Intn(2) == 0 {
			suff = raft.Nonvoter // a non-voter on the leader's side must not keep it alive
		}
		cfg.Servers = append(cfg.Servers, raft.Server{Suffrage: suff, ID: sidOf(i), Address: n.addr})
	}
	h.rec("C %d 0", nsrv)
	for _, n := range c.nodes[1:] {
		c.startNode(n)
	}
	_ = c.nodes[1].r.BootstrapCluster(cfg).Error()
	time.Sleep(600 * time.Millisecond)
	// (b) calm stretch: writes, no faults
	h.rec("CALM %d", h.now())
	calm := 2000 + rng.Intn(20000)
	for t := 0; t < calm; t += 100 {
		if l := c.leader(); l != nil && rng.Intn(3) == 0 {
			c.apply(l, "a")
		}
		time.Sleep(100 * time.Millisecond)
	}
	h.rec("CALMEND %d", h.now())
	if l := c.leader(); l != nil && selfDemote {
		// (a') the leader loses its majority through its own (uncommitted) demotion: one follower is
		// unreachable and the leader stops being a voter, so the one follower it still reaches is
		// not a majority of the remaining voters
		other := 1 + l.id%nsrv
		c.isolate(other, true)
		time.Sleep(30 * time.Millisecond)
		self := sidOf(l.id)
		c.callWith(l, "m", func(r *raft.Raft) error { return r.DemoteVoter(self, 0, 20*time.Millisecond).Error() })
		time.Sleep(10 * time.Millisecond)
		h.rec("ISO %d %d %d 50", l.id, l.life, h.now())
		time.Sleep(500 * time.Millisecond)
		c.isolate(other, false)
	} else if l != nil {
		_ = l
	}
	// (a) isolate the leader; a non-voter (if any) stays connected to it
	if l := c.leader(); l != nil && !selfDemote {
		c.mu.Lock()
		for o := 1; o <= nsrv; o++ {
			if o == l.id {
				continue
			}
			if cfg.Servers[o-1].Suffrage == raft.Nonvoter {
				continue
			}
			c.blocked[[2]int{l.id, o}] = true
			c.blocked[[2]int{o, l.id}] = true
		}
		c.mu.Unlock()
		h.rec("ISO %d %d %d 50", l.id, l.life, h.now())
		time.Sleep(400 * time.Millisecond)
		// after stepping down it must refuse writes
		c.apply(l, "a")
		time.Sleep(100 * time.Millisecond)
	}
	c.mu.Lock()
	c.blocked = map[[2]int]bool{}
	c.mu.Unlock()
	h.rec("Q %d", h.now())
	time.Sleep(12 * time.Second)
	for k := 0; k < 3; k++ {
		if l := c.leader(); l != nil {
			c.apply(l, "a")
		}
		time.Sleep(300 * time.Millisecond)
	}
	time.Sleep(2 * time.Second)
	c.wg.Wait()
	c.dump("final")
	h.rec("END %d", h.now())
	c.mu.Lock()
	c.stopped = true
	c.mu.Unlock()
	for _, n := range c.nodes[1:] {
		if n.up {
			c.crash(n)
		}
	}
	h.mu.Lock()
	lines := h.lines
	h.mu.Unlock()
	fmt.Fprintf(out, "CL %d %d\n", caseNo, nsrv)
	fmt.Fprintln(out, strconv.Itoa(len(lines))+" ; "+strings.Join(lines, " ; "))
	st.Cases++
	st.Distinct++
	st.Hist["lease-case"]++
	addSample(st, lines)
}

// runRestoreCase (C20): a user Restore on the leader with writes in flight, lagging or cut-off
// followers, snapshot index below / at / above the current last index, both store kinds.
func runRestoreCase(rng *rand.Rand, out *bufio.Writer, st *stats, caseNo int) {
	h := &hist{t0: time.Now(), seenS: map[string]bool{}}
	nsrv := 3
	mono := rng.Intn(2) == 0
	c := &cluster{rng: rng, h: h, blocked: map[[2]int]bool{}, holdMs: map[[2]int]int{}, delayMs: 1 + rng.Intn(4)}
	_, c.inj = raft.NewInmemTransportWithTimeout("inj", 80*time.Millisecond)
	c.nodes = []*cnode{nil}
	var cfg raft.Configuration
	for i := 1; i <= nsrv; i++ {
		n := &cnode{id: i, addr: addrOf(i), st: &cstore{InmemStore: raft.NewInmemStore(), mono: mono}, snaps: &snapStore{c: &ctl{failAt: -1, crashAt: -1}}}
		c.nodes = append(c.nodes, n)
		cfg.Servers = append(cfg.Servers, raft.Server{Suffrage: raft.Voter, ID: sidOf(i), Address: n.addr})
	}
	h.rec("C %d %d", nsrv, b2i(mono))
	for _, n := range c.nodes[1:] {
		c.startNode(n)
	}
	_ = c.nodes[1].r.BootstrapCluster(cfg).Error()
	time.Sleep(500 * time.Millisecond)
	for k, m := 0, 2+rng.Intn(8); k < m; k++ {
		if l := c.leader(); l != nil {
			c.apply(l, "a")
		}
		time.Sleep(time.Duration(5+rng.Intn(30)) * time.Millisecond)
	}
	// optionally the leader of the moment is cut off with writes in flight (it keeps uncommitted entries,
	// one of them at the index the restore will use), and the restore is done by its successor
	deposed := false
	if l0 := c.leader(); l0 != nil && rng.Intn(4) == 0 {
		deposed = true
		for k, m := 0, 2+rng.Intn(4); k < m; k++ {
			c.apply(l0, "a")
		}
		synctest.Wait()
		c.isolate(l0.id, true)
		time.Sleep(400 * time.Millisecond)
		st.Hist["restore-after-deposing-a-leader-with-writes-in-flight"]++
	}
	// optionally cut a follower off so that it lags behind the restore
	l := c.leader()
	if l != nil && rng.Intn(2) == 0 {
		f := 1 + rng.Intn(nsrv)
		if f != l.id {
			c.mu.Lock()
			c.blocked[[2]int{l.id, f}] = true
			c.blocked[[2]int{f, l.id}] = true
			c.mu.Unlock()
		}
		for k := 0; k < 2; k++ {
			c.apply(l, "a")
			time.Sleep(20 * time.Millisecond)
		}
	}
	if l != nil {
		// writes in flight while the restore runs
		m := rng.Intn(4)
		for k := 0; k < m; k++ {
			c.apply(l, "a")
		}
		if m > 0 && rng.Intn(3) != 0 {
			// let the leader dispatch them (no virtual time passes, so none is acknowledged yet):
			// the restore then finds them in flight
			synctest.Wait()
			st.Hist[fmt.Sprintf("restore-with-%d-in-flight", m)]++
		}
		last := int(l.r.LastIndex())
		metaIdx := []int{1, last, last + 1 + rng.Intn(5), last / 2}[rng.Intn(4)]
		if metaIdx < 1 {
			metaIdx = 1
		}
		var data []int
		racing := rng.Intn(4) == 0
		// a leadership transfer is in progress when the restore arrives (flavour below)
		xfer := !racing && rng.Intn(4) == 0
		// (a restore that may be cut short or must be refused carries a non-empty state, so that its traces can be told apart)
		for k, m := 0, rng.Intn(5); k < m || ((racing || deposed || xfer) && k == 0); k++ {
			data = append(data, 9000+caseNo%100*10+k)
		}
		blob := encodeState(data)
		meta := &raft.SnapshotMeta{Version: 1, ID: "user", Index: uint64(metaIdx), Term: l.r.CurrentTerm(), Size: int64(len(blob))}
		if racing {
			// a server (the leader itself or a follower about to be sent the snapshot) is shut down while
			// the restore is under way, and comes back later
			victim := c.nodes[1+rng.Intn(nsrv)]
			viaTime := rng.Intn(2) == 0
			ms, yields := rng.Intn(30), rng.Intn(200)
			c.wg.Add(1)
			go func() {
				defer c.wg.Done()
				if viaTime {
					time.Sleep(time.Duration(ms) * time.Millisecond)
				} else {
					for k := 0; k < yields; k++ {
						runtime.Gosched()
					}
				}
				c.crash(victim)
				time.Sleep(700 * time.Millisecond)
				c.startNodeP(victim)
			}()
			st.Hist["shutdown-during-restore"]++
		}
		if !racing && rng.Intn(3) == 0 {
			// an ordinary snapshot of the leader is still being written while the restore runs (a slow
			// Persist), and finishes after it: the restore's position must not be lost to it
			l.fsm.mu.Lock()
			l.fsm.persist = time.Duration(300+rng.Intn(500)) * time.Millisecond
			l.fsm.mu.Unlock()
			ls := l
			c.wg.Add(1)
			go func() {
				defer c.wg.Done()
				_ = ls.r.Snapshot().Error()
			}()
			synctest.Wait() // the snapshot goroutine is inside Persist now
			l.fsm.mu.Lock()
			l.fsm.persist = 0
			l.fsm.mu.Unlock()
			st.Hist["snapshot-being-written-during-restore"]++
		}
		xferStarted, xferDone := false, false
		if xfer {
			// the transfer's target is cut off, so the transfer cannot finish before the restore is
			// served: the restore must be refused and leave no trace
			var tgt *cnode
			for _, o := range c.nodes[1:] {
				if o.id != l.id && o.up {
					tgt = o
				}
			}
			if tgt != nil {
				c.mu.Lock()
				c.blocked[[2]int{l.id, tgt.id}] = true
				c.blocked[[2]int{tgt.id, l.id}] = true
				c.mu.Unlock()
				if rng.Intn(2) == 0 {
					// the target is also an entry behind: the transfer sits in its catch-up phase
					c.apply(l, "a")
					synctest.Wait()
					st.Hist["restore-during-leadership-transfer,target-behind"]++
				}
				ls, tid, tad := l, sidOf(tgt.id), tgt.addr
				xferStarted = true
				c.wg.Add(1)
				go func() {
					defer c.wg.Done()
					_ = ls.r.LeadershipTransferToServer(tid, tad).Error()
					c.mu.Lock()
					xferDone = true
					c.mu.Unlock()
				}()
				synctest.Wait()
				st.Hist["restore-during-leadership-transfer"]++
			}
		}
		t0 := h.now()
		h.rec("RI %d %d %d", l.id, l.life, t0)
		err := l.r.Restore(meta, strings.NewReader(string(blob)), 2*time.Second)
		if code := errCode(err); code == 5 && xfer {
			// refused because of the transfer started above: it must have done nothing.  (ErrNotLeader
			// is not recorded as a refusal: Restore also returns it when the no-op it appends after a
			// completed restore is turned away, which is the cut-short situation of F16.)
			h.rec("RR %d %d %d %s", l.id, l.life, code, intsTok(data))
		}
		c.mu.Lock()
		pendingStill := xferStarted && !xferDone
		c.mu.Unlock()
		if err == nil && pendingStill {
			// the restore was served and completed while the transfer call had not yet been answered
			h.rec("RX %d %d", l.id, l.life)
		}
		h.rec("R %d %d %d %d %d %d %d %s", l.id, l.life, t0, h.now(), b2i(err == nil), metaIdx, last, intsTok(data))
		st.Hist[fmt.Sprintf("restore-ok=%v", err == nil)]++
		if rng.Intn(2) == 0 {
			// a write right behind the restore, then the leader is cut off while the followers are
			// still installing the snapshot: whatever it acknowledged must survive its deposition
			c.apply(l, "a")
			time.Sleep(time.Duration(rng.Intn(40)) * time.Millisecond)
			c.mu.Lock()
			for o := 1; o <= nsrv; o++ {
				if o != l.id {
					c.blocked[[2]int{l.id, o}] = true
					c.blocked[[2]int{o, l.id}] = true
				}
			}
			c.mu.Unlock()
			time.Sleep(600 * time.Millisecond)
			c.mu.Lock()
			c.blocked = map[[2]int]bool{}
			c.mu.Unlock()
			st.Hist["leader-cut-off-right-after-restore"]++
		}
		for k, m := 0, 1+rng.Intn(4); k < m; k++ {
			if l2 := c.leader(); l2 != nil {
				c.apply(l2, "a")
			}
			time.Sleep(time.Duration(5+rng.Intn(30)) * time.Millisecond)
		}
	}
	c.mu.Lock()
	c.blocked = map[[2]int]bool{}
	c.mu.Unlock()
	h.rec("Q %d", h.now())
	time.Sleep(15 * time.Second)
	for k := 0; k < 2; k++ {
		if l2 := c.leader(); l2 != nil {
			c.apply(l2, "a")
		}
		time.Sleep(300 * time.Millisecond)
	}
	time.Sleep(2 * time.Second)
	c.wg.Wait()
	c.dump("final")
	h.rec("END %d", h.now())
	c.mu.Lock()
	c.stopped = true
	c.mu.Unlock()
	for _, n := range c.nodes[1:] {
		if n.up {
			c.crash(n)
		}
	}
	h.mu.Lock()
	lines := h.lines
	h.mu.Unlock()
	fmt.Fprintf(out, "CL %d %d\n", caseNo, nsrv)
	fmt.Fprintln(out, strconv.Itoa(len(lines))+" ; "+strings.Join(lines, " ; "))
	st.Cases++
	st.Distinct++
	addSample(st, lines)
}

func addSample(st *stats, lines []string) {
	if len(st.Samples) < 2 {
		smp := strings.Join(lines, " ; ")
		if len(smp) > 700 {
			smp = smp[:700] + " ..."
		}
		st.Samples = append(st.Samples, smp)
	}
}
