package h2

// Engine "leader": the real leader loop (runLeader / leaderLoop with dispatchLogs, the commit branch,
// processLogs with the in-flight futures, the membership gate and appendConfigurationEntry,
// verifyLeader and the heartbeat routines' vote bookkeeping, the clean-up on the way out) on one
// real server whose peers are played by the harness: every AppendEntries a replication or heartbeat
// routine sends is parked in the transport until a stimulus answers it.  No virtual time passes
// while the loop runs (the harness never sleeps), so the lease, commit-timeout and heartbeat timers
// never fire: each stimulus is one iteration of the loop run to quiescence, which is the step of the
// Lean model SV.stepLeader.  Every observation (durable writes, volatile state, FSM calls, resolved
// futures, leader bookkeeping, NotifyCh) is compared with the model's, and the requests the
// replication routines built are judged against the leader's log (C04).

import (
	"bufio"
	"errors"
	"fmt"
	"io"
	"math/rand"
	"sort"
	"strconv"
	"strings"
	"sync"
	"testing/synctest"
	"time"

	"github.com/hashicorp/raft"
)

type pendReq struct {
	addr int
	req  *raft.AppendEntriesRequest
	resp *raft.AppendEntriesResponse
	done chan error
}

type leadTrans struct {
	*nullTrans
	mu     sync.Mutex
	pendAE map[int]*pendReq
	pendHB map[int]*pendReq
	closed chan struct{}
}

func (t *leadTrans) AppendEntries(id raft.ServerID, target raft.ServerAddress, req *raft.AppendEntriesRequest, resp *raft.AppendEntriesResponse) error {
	p, _ := strconv.Atoi(string(id))
	ad, _ := strconv.Atoi(string(target))
	rec := &pendReq{addr: ad, req: req, resp: resp, done: make(chan error, 1)}
	t.mu.Lock()
	if req.PrevLogEntry == 0 && len(req.Entries) == 0 {
		t.pendHB[p] = rec
	} else {
		t.pendAE[p] = rec
	}
	t.mu.Unlock()
	select {
	case err := <-rec.done:
		return err
	case <-t.closed:
		return errors.New("closed")
	}
}

func (t *leadTrans) InstallSnapshot(raft.ServerID, raft.ServerAddress, *raft.InstallSnapshotRequest, *raft.InstallSnapshotResponse, io.Reader) error {
	return errors.New("unreachable")
}

type callRec struct {
	change bool
	id     int
	done   bool
	seen   bool
	code   string
	index  uint64
	resp   int
}

type leadRun struct {
	w      *world
	t      *leadTrans
	mu     sync.Mutex
	calls  []*callRec
	done   chan struct{} // closed when runLeader returns
	nextID int
}

func leadErrCode(err error) string {
	switch {
	case err == nil:
		return "ok"
	case errors.Is(err, raft.ErrLeadershipLost):
		return "ll"
	case errors.Is(err, raft.ErrNotLeader):
		return "nl"
	case errors.Is(err, errInjected):
		return "sf"
	case errors.Is(err, raft.ErrRaftShutdown):
		return "sd"
	case errors.Is(err, raft.ErrLeadershipTransferInProgress):
		return "tp"
	}
	return "rf"
}

// openChanges counts membership calls that have not resolved yet (they may be waiting for the gate)
func (l *leadRun) openChanges() (n int) {
	l.mu.Lock()
	defer l.mu.Unlock()
	for _, c := range l.calls {
		if c.change && !c.done {
			n++
		}
	}
	return
}

func (l *leadRun) leading() bool {
	if l.done == nil {
		return false
	}
	select {
	case <-l.done:
		return false
	default:
		return true
	}
}

func (l *leadRun) start() {
	l.done = make(chan struct{})
	d := l.done
	r := l.w.r
	go func() {
		defer close(d)
		defer func() { _ = recover() }()
		r.VerifRunLeader()
	}()
}

type apiCall struct {
	kind       byte // 'a' apply, 'b' barrier, 'c' change, 'v' verify
	data       int
	cmd        int // 0 AddVoter 1 AddNonvoter 2 DemoteVoter 3 RemoveServer
	id, addr   int
	prev       int
	assignedID int
}

func (c apiCall) tok() string {
	switch c.kind {
	case 'a':
		return fmt.Sprintf("%d a %d", c.assignedID, c.data)
	case 'b':
		return fmt.Sprintf("%d b", c.assignedID)
	case 'c':
		return fmt.Sprintf("%d c %d %d %d %d", c.assignedID, c.cmd, c.id, c.addr, c.prev)
	}
	return fmt.Sprintf("%d v", c.assignedID)
}

// issue starts one API call on its own goroutine; its outcome is recorded when the future resolves
func (l *leadRun) issue(c apiCall) {
	rec := &callRec{id: c.assignedID, change: c.kind == 'c'}
	l.mu.Lock()
	l.calls = append(l.calls, rec)
	l.mu.Unlock()
	r := l.w.r
	go func() {
		var err error
		var idx uint64
		resp := 0
		switch c.kind {
		case 'a':
			f := r.Apply([]byte(strconv.Itoa(c.data)), 0)
			err = f.Error()
			if err == nil {
				idx = f.Index()
				if x, ok := f.Response().(int); ok {
					resp = x
				}
			}
		case 'b':
			f := r.Barrier(0)
			err = f.Error()
			if x, ok := f.(raft.IndexFuture); ok && err == nil {
				idx = x.Index()
			}
		case 'c':
			var f raft.IndexFuture
			sid, sad := raft.ServerID(strconv.Itoa(c.id)), raft.ServerAddress(strconv.Itoa(c.addr))
			switch c.cmd {
			case 0:
				f = r.AddVoter(sid, sad, uint64(c.prev), 0)
			case 1:
				f = r.AddNonvoter(sid, sad, uint64(c.prev), 0)
			case 2:
				f = r.DemoteVoter(sid, uint64(c.prev), 0)
			default:
				f = r.RemoveServer(sid, uint64(c.prev), 0)
			}
			err = f.Error()
			if err == nil {
				idx = f.Index()
			}
		default:
			err = r.VerifyLeader().Error()
		}
		l.mu.Lock()
		rec.done, rec.code, rec.index, rec.resp = true, leadErrCode(err), idx, resp
		l.mu.Unlock()
	}()
}

// outcomes renders the calls resolved since the last observation
func (l *leadRun) outcomes() string {
	l.mu.Lock()
	defer l.mu.Unlock()
	var p []string
	for _, c := range l.calls {
		if c.done && !c.seen {
			c.seen = true
			if c.code == "sd" {
				continue // answered by the shutdown of a process that died: nobody is there to hear it
			}
			p = append(p, fmt.Sprintf("%d %s %d %d", c.id, c.code, c.index, c.resp))
		}
	}
	return fmt.Sprintf("U %d %s", len(p), strings.Join(p, " "))
}

func (l *leadRun) dumpTok() string {
	if l.w.r == nil {
		return "L 0"
	}
	d := l.w.r.VerifLeaderDump()
	if !d.Active {
		return "L 0"
	}
	var ids []int
	for id := range d.MatchIndexes {
		x, _ := strconv.Atoi(string(id))
		ids = append(ids, x)
	}
	sort.Ints(ids)
	p := []string{"L 1", fmt.Sprint(d.StartIndex), fmt.Sprint(d.CommitmentIndex), fmt.Sprint(len(ids))}
	for _, id := range ids {
		p = append(p, fmt.Sprintf("%d %d", id, d.MatchIndexes[raft.ServerID(strconv.Itoa(id))]))
	}
	p = append(p, fmt.Sprint(len(d.Inflight)))
	for _, i := range d.Inflight {
		p = append(p, fmt.Sprint(i))
	}
	var peers []int
	for _, id := range d.Replicating {
		x, _ := strconv.Atoi(string(id))
		peers = append(peers, x)
	}
	sort.Ints(peers)
	p = append(p, fmt.Sprint(len(peers)), intsJoin(peers), fmt.Sprint(d.VerifyPending))
	return strings.Join(strings.Fields(strings.Join(p, " ")), " ")
}

func (l *leadRun) notifyTok() string {
	var p []string
	if l.w.slowNotify {
		n, lc := l.w.noteN, l.w.noteLC
		l.w.noteN, l.w.noteLC = nil, nil
		return fmt.Sprintf("N %d %s LC %d %s", len(n), intsJoin(n), len(lc), intsJoin(lc))
	}
	for {
		select {
		case b := <-l.w.notify:
			p = append(p, strconv.Itoa(b2i(b)))
			continue
		default:
		}
		break
	}
	return fmt.Sprintf("N %d %s LC 0", len(p), strings.Join(p, " "))
}

// pendingTok lists the replication requests now parked in the network
func (l *leadRun) pendingTok() string {
	l.t.mu.Lock()
	defer l.t.mu.Unlock()
	var ids []int
	for p := range l.t.pendAE {
		ids = append(ids, p)
	}
	sort.Ints(ids)
	out := []string{"Q", strconv.Itoa(len(ids))}
	for _, p := range ids {
		q := l.t.pendAE[p].req
		out = append(out, fmt.Sprintf("%d %d %d %d %d %d %d", p, l.t.pendAE[p].addr, q.Term, q.PrevLogEntry, q.PrevLogTerm, q.LeaderCommitIndex, len(q.Entries)))
		for _, e := range q.Entries {
			out = append(out, fromLog(e).tok())
		}
	}
	var hbs []int
	for p := range l.t.pendHB {
		hbs = append(hbs, p)
	}
	sort.Ints(hbs)
	out = append(out, "B", strconv.Itoa(len(hbs)), intsJoin(hbs))
	return strings.Join(out, " ")
}

func (l *leadRun) observe(base string) string {
	return strings.Join(strings.Fields(fmt.Sprintf("%s %s %s %s %s", base, l.outcomes(), l.dumpTok(), l.notifyTok(), l.pendingTok())), " ")
}

func (l *leadRun) obsNow(resp string) string {
	synctest.Wait()
	return l.observe(l.w.obs(false, resp))
}

func cfgVoters(c []srv) (n int) {
	for _, s := range c {
		if s.suff == 0 {
			n++
		}
	}
	return
}

func runLeaderCase(rng *rand.Rand, thorough bool, out *bufio.Writer, st *stats, seen map[string]bool) {
	cfgs := [][]srv{
		{{0, 1, 11}},
		{{0, 1, 11}, {0, 2, 12}},
		baseCfg, baseCfg,
		{{0, 1, 11}, {0, 2, 12}, {0, 3, 13}, {1, 4, 14}},
		{{0, 1, 11}, {0, 2, 12}, {0, 3, 13}, {0, 4, 14}, {0, 5, 15}},
		{{0, 1, 11}, {1, 2, 12}},
		{{0, 2, 12}, {0, 1, 11}, {2, 3, 13}},
	}
	cfg := cfgs[rng.Intn(len(cfgs))]
	maxAEs := []int{1, 2, 64}
	w := newWorld(rng.Intn(4) == 0, rng.Intn(3) == 0, 1+rng.Intn(3), maxAEs[rng.Intn(len(maxAEs))])
	w.slowNotify = rng.Intn(4) == 0 // a slow NotifyCh reader: unbuffered, read at observation points only
	// image: the bootstrap configuration, then a few entries; optionally snapshotted and compacted
	pay := 0
	log := []entry{{idx: 1, term: 1, kind: 5, cfg: cfg}}
	term := 1
	var fsmState []int
	type hist struct {
		state []int
	}
	hs := []hist{{nil}, {nil}}
	n := 1 + rng.Intn(6)
	for i := 2; i <= n; i++ {
		if rng.Intn(3) == 0 {
			term += 1 + rng.Intn(2)
		}
		k := []int{0, 0, 0, 1, 4}[rng.Intn(5)]
		pay++
		e := entry{idx: i, term: term, kind: k, data: pay}
		if k == 0 {
			fsmState = append(append([]int{}, fsmState...), pay)
		}
		log = append(log, e)
		hs = append(hs, hist{fsmState})
	}
	curTerm := term + rng.Intn(2)
	var snaps []snapRec
	if n >= 2 && rng.Intn(3) == 0 {
		si := 1 + rng.Intn(n)
		snaps = append(snaps, snapRec{idx: si, term: log[si-1].term, cfgIdx: 1, cfg: cfg, data: hs[si].state})
		if rng.Intn(2) == 0 {
			log = log[rng.Intn(si+1):]
		}
	}
	staged := rng.Intn(n + 1)
	w.populate(curTerm, 0, false, 0, log, staged, snaps)
	initDur := w.durableTok()
	lt := &leadTrans{pendAE: map[int]*pendReq{}, pendHB: map[int]*pendReq{}, closed: make(chan struct{})}
	w.wrapTrans = func(nt *nullTrans) raft.Transport { lt.nullTrans = nt; return lt }
	l := &leadRun{w: w, t: lt, nextID: 1}

	var evs, obs []string
	step := func(ev, ob string) {
		evs = append(evs, ev)
		obs = append(obs, ob)
	}
	w.start()
	boot := w.obs(false, "n")
	if w.dead {
		w.stop()
		return
	}
	// become leader: by decree, or through a won campaign
	if rng.Intn(2) == 0 {
		e := event{kind: 'S', role: 2, leader: 11, leaderID: 1, failAt: -1, crashAt: -1}
		step("R "+e.tok(), l.observe(w.apply(e)))
	} else {
		e := event{kind: 'S', role: 1, failAt: -1, crashAt: -1}
		step("R "+e.tok(), l.observe(w.apply(e)))
		d := w.r.VerifDump()
		g := event{kind: 'G', failAt: -1, crashAt: -1}
		for _, sv := range unCfg(d.Latest) {
			if sv.id != 1 {
				g.resps = append(g.resps, peerResp{id: sv.id, pvTerm: int(d.Term) + 1, vTerm: int(d.Term) + 1, pvGranted: true, vGranted: true})
			}
		}
		step("R "+g.tok(), l.observe(w.apply(g)))
	}
	if w.dead || w.r.VerifDump().State != raft.Leader {
		close(lt.closed)
		w.stop()
		return
	}
	w.c.reset(-1, -1)
	l.start()
	step("S", l.obsNow("n"))

	nev := 4 + rng.Intn(10)
	if thorough {
		nev = 6 + rng.Intn(24)
	}
	after := 0
	removed := map[int]bool{}
	// in a third of the cases virtual time passes: 250 ms per tick, so that heartbeat and commit timers
	// fire and the lease is checked (no heartbeat is failed in such a case: how long the routine then
	// backs off is not something the stepped model follows)
	ticking := rng.Intn(3) == 0
	for i := 0; i < nev && !w.dead; i++ {
		d := w.r.VerifDump()
		if !l.leading() {
			// the leader's life is over: a couple of requests reach the follower it has become
			after++
			if after > 2 {
				break
			}
			if after == 1 {
				// the replication routines have not noticed yet: requests still travelling are answered
				// (acknowledged) once more, and whatever such a routine sends next is observed - it must
				// still speak for the term this server led, not for the term it has moved to
				lt.mu.Lock()
				var ps []int
				for p := range lt.pendAE {
					ps = append(ps, p)
				}
				lt.mu.Unlock()
				sort.Ints(ps)
				for _, p := range ps {
					if rng.Intn(2) == 0 {
						continue
					}
					lt.mu.Lock()
					rec := lt.pendAE[p]
					delete(lt.pendAE, p)
					lt.mu.Unlock()
					idx := 0
					if k := len(rec.req.Entries); k > 0 {
						idx = int(rec.req.Entries[k-1].Index)
					}
					w.c.reset(-1, -1)
					*rec.resp = raft.AppendEntriesResponse{RPCHeader: hdr(p, 10+p), Term: rec.req.Term, LastLog: uint64(idx), Success: true}
					rec.done <- nil
					step(fmt.Sprintf("K %d %d", p, idx), l.obsNow("n"))
					st.Hist["ack-after-leadership-ended"]++
				}
				// whatever is still travelling to the followers now is lost: the routines see their stop signal
				close(lt.closed)
				synctest.Wait()
			}
			g := &gen{rng: rng, w: w, pay: 5000 + pay}
			e := g.event()
			for e.kind == 'R' || e.kind == 'K' || e.kind == 'S' || e.kind == 'T' {
				e = g.event()
			}
			e.crashAt = -1
			step("R "+e.tok(), l.observe(w.apply(e)))
			continue
		}
		latest := unCfg(d.Latest)
		voters := cfgVoters(latest)
		lt.mu.Lock()
		var aePeers, hbPeers []int
		for p := range lt.pendAE {
			aePeers = append(aePeers, p)
		}
		replicating := map[int]bool{}
		for _, id := range w.r.VerifLeaderDump().Replicating {
			x, _ := strconv.Atoi(string(id))
			replicating[x] = true
		}
		for p := range lt.pendHB {
			// (the heartbeat routine of a server that has been removed lives on for as long as its
			// replication routine happens to be busy: such a heartbeat is left unanswered)
			if replicating[p] {
				hbPeers = append(hbPeers, p)
			}
		}
		lt.mu.Unlock()
		sort.Ints(aePeers)
		sort.Ints(hbPeers)
		x := rng.Intn(100)
		if ticking && rng.Intn(4) == 0 {
			w.c.reset(-1, -1)
			time.Sleep(250 * time.Millisecond)
			step("TK", l.obsNow("n"))
			st.Hist["tick-250ms"]++
			continue
		}
		switch {
		case x < 30 && len(aePeers) > 0: // a follower answers its parked AppendEntries
			p := aePeers[rng.Intn(len(aePeers))]
			lt.mu.Lock()
			rec := lt.pendAE[p]
			delete(lt.pendAE, p)
			lt.mu.Unlock()
			w.c.reset(-1, -1)
			switch y := rng.Intn(12); {
			case y < 9:
				idx := 0
				if k := len(rec.req.Entries); k > 0 {
					idx = int(rec.req.Entries[k-1].Index)
				}
				*rec.resp = raft.AppendEntriesResponse{RPCHeader: hdr(p, 10+p), Term: rec.req.Term, LastLog: uint64(idx), Success: true}
				rec.done <- nil
				step(fmt.Sprintf("K %d %d", p, idx), l.obsNow("n"))
				st.Hist["ack"]++
			case y < 11:
				ll := uint64(0)
				if rec.req.PrevLogEntry > 0 {
					ll = uint64(rng.Intn(int(rec.req.PrevLogEntry)))
				}
				*rec.resp = raft.AppendEntriesResponse{RPCHeader: hdr(p, 10+p), Term: rec.req.Term, LastLog: ll, Success: false, NoRetryBackoff: true}
				rec.done <- nil
				step(fmt.Sprintf("K %d 0", p), l.obsNow("n"))
				st.Hist["reject"]++
			default:
				if w.r.VerifLeaderDump().VerifyPending > 0 {
					// (with a VerifyLeader pending the loop may see the refusal of that request or the
					// step-down signal first; the answer is a plain refusal instead)
					*rec.resp = raft.AppendEntriesResponse{RPCHeader: hdr(p, 10+p), Term: rec.req.Term, Success: false, NoRetryBackoff: true}
					rec.done <- nil
					step(fmt.Sprintf("K %d 0", p), l.obsNow("n"))
					break
				}
				*rec.resp = raft.AppendEntriesResponse{RPCHeader: hdr(p, 10+p), Term: rec.req.Term + 1, Success: false}
				rec.done <- nil
				step("X", l.obsNow("n"))
				st.Hist["deposed-by-answer"]++
			}
		case x < 38 && len(hbPeers) > 0: // a heartbeat is answered
			p := hbPeers[rng.Intn(len(hbPeers))]
			lt.mu.Lock()
			rec := lt.pendHB[p]
			delete(lt.pendHB, p)
			lt.mu.Unlock()
			w.c.reset(-1, -1)
			y := rng.Intn(10)
			if y == 7 && w.r.VerifLeaderDump().VerifyPending > 1 {
				y = 0 // (which of several refused requests reaches the loop first is the order of a Go map)
			}
			if y >= 8 && ticking {
				y = 0
			}
			switch {
			case y < 7:
				*rec.resp = raft.AppendEntriesResponse{RPCHeader: hdr(p, 10+p), Term: rec.req.Term, Success: true}
				rec.done <- nil
				step(fmt.Sprintf("H %d 0", p), l.obsNow("n"))
			case y < 8:
				*rec.resp = raft.AppendEntriesResponse{RPCHeader: hdr(p, 10+p), Term: rec.req.Term + 1, Success: false}
				rec.done <- nil
				step(fmt.Sprintf("H %d 1", p), l.obsNow("n"))
			default:
				rec.done <- errors.New("unreachable")
				step(fmt.Sprintf("H %d 2", p), l.obsNow("n"))
			}
			st.Hist["heartbeat-answered"]++
		case x < 41: // a request from another server reaches the leader's loop
			g := &gen{rng: rng, w: w, pay: 5000 + pay}
			e := g.event()
			for e.kind == 'R' || e.kind == 'K' || e.kind == 'S' || e.kind == 'T' || e.kind == 'I' {
				e = g.event()
			}
			e.crashAt, e.failAt = -1, -1
			rpc, ch := e.rpc()
			w.c.reset(-1, -1)
			w.trans.ch <- rpc
			synctest.Wait()
			resp := "n"
			select {
			case rr := <-ch:
				resp = respTok(rr)
			default:
			}
			step("R "+e.tok(), l.observe(w.obs(false, resp)))
			st.Hist["rpc-to-leader"]++
		default: // API calls
			var cs []apiCall
			failAt := -1
			y := rng.Intn(20)
			switch {
			case y < 9:
				pay++
				cs = []apiCall{{kind: 'a', data: pay}}
				if rng.Intn(10) == 0 {
					failAt = rng.Intn(2)
				}
			case y < 11:
				cs = []apiCall{{kind: 'b'}}
			case y < 14 && voters >= 2:
				k := 2 + rng.Intn(5)
				for j := 0; j < k; j++ {
					if rng.Intn(5) == 0 {
						cs = append(cs, apiCall{kind: 'b'})
					} else {
						pay++
						cs = append(cs, apiCall{kind: 'a', data: pay})
					}
				}
			case y < 18:
				c := apiCall{kind: 'c', cmd: rng.Intn(4), id: 1 + rng.Intn(6)}
				for tries := 0; removed[c.id] && tries < 20; tries++ {
					// (a server removed earlier in the run is not named again: the routines of its first
					// life may still be around, and which of its two lives an answer belongs to is not
					// something the stepped model follows)
					c.id = 1 + rng.Intn(6)
				}
				if removed[c.id] {
					c.cmd = 3 // (every id has been removed by now: removing one again is refused)
				}
				if c.cmd == 3 {
					removed[c.id] = true
				}
				c.addr = 10 + c.id
				if rng.Intn(8) == 0 {
					c.addr = 10 + 1 + rng.Intn(6)
				}
				switch rng.Intn(6) {
				case 0:
					c.prev = int(d.LatestIndex)
				case 1:
					c.prev = 1 + rng.Intn(int(d.LatestIndex)+2)
				}
				cs = []apiCall{c}
				if rng.Intn(12) == 0 {
					failAt = rng.Intn(2)
				}
			default:
				cs = []apiCall{{kind: 'v'}}
			}
			if l.openChanges() > 0 {
				failAt = -1 // a waiting membership call may be served within this step: its write would take the fault
			}
			w.c.reset(failAt, -1)
			var toks []string
			if len(cs) > 1 {
				w.st.gate = make(chan struct{})
			}
			for j := range cs {
				cs[j].assignedID = l.nextID
				l.nextID++
				toks = append(toks, cs[j].tok())
				l.issue(cs[j])
				synctest.Wait()
			}
			if g := w.st.gate; g != nil {
				w.st.gate = nil
				close(g)
			}
			step(fmt.Sprintf("C %d %s %d", len(cs), strings.Join(toks, " "), failAt+1), l.obsNow("n"))
			st.Hist["calls="+string(cs[0].kind)+fmt.Sprint(min(len(cs), 2))]++
			if failAt >= 0 {
				st.Hist["store-fault-armed"]++
			}
		}
	}
	ended := !l.leading()
	if after == 0 {
		close(lt.closed)
	}
	w.stop()
	synctest.Wait()

	caseLine := fmt.Sprintf("CF %d %d %d %d %d DU %s EV %d %s", b2i(w.mono), b2i(w.restoreC), w.trailing, w.maxAE, 0, initDur, len(evs), strings.Join(evs, " "))
	caseLine = strings.Join(strings.Fields(caseLine), " ")
	implLine := fmt.Sprintf("%s %d %s", boot, len(obs), strings.Join(obs, " "))
	fmt.Fprintln(out, caseLine)
	fmt.Fprintln(out, implLine)
	st.Cases++
	if ended {
		st.Hist["leadership-ended"]++
	}
	st.Hist[fmt.Sprintf("voters=%d", cfgVoters(cfg))]++
	if !seen[caseLine] {
		seen[caseLine] = true
		st.Distinct++
		if len(st.Samples) < 3 {
			smp := caseLine + " => " + implLine
			if len(smp) > 600 {
				smp = smp[:600] + " ..."
			}
			st.Samples = append(st.Samples, smp)
		}
	}
}
