// Package h2: one real *raft.Raft in a scripted world (DESIGN.md section 4, H2).
// The instance is built with skipStartup (no run loop); RPC handlers are called synchronously
// through VerifProcessRPC; only the FSM goroutine runs, inside a testing/synctest bubble so that
// quiescence is detectable.  All stores are harness-owned wrappers that count durable writes and
// can fail or "crash" (panic) at a chosen write ordinal.
package h2

import (
	"bytes"
	"errors"
	"fmt"
	"io"
	"sort"
	"strconv"
	"strings"
	"sync"
	"time"

	"github.com/hashicorp/raft"
)

var errInjected = errors.New("injected store failure")

type crashSentinel struct{}

// ctl counts the durable writes of the current event and arms a failure / crash ordinal.
type ctl struct {
	n       int
	failAt  int // -1 = none
	crashAt int // -1 = none
	ops     []string
}

func (c *ctl) reset(failAt, crashAt int) { c.n, c.failAt, c.crashAt, c.ops = 0, failAt, crashAt, nil }

func (c *ctl) write(failable bool, desc string) error {
	k := c.n
	c.n++
	if k == c.crashAt {
		c.crashAt = -1
		panic(crashSentinel{})
	}
	if failable && k == c.failAt {
		return errInjected
	}
	c.ops = append(c.ops, desc)
	return nil
}

// ---- log store (also StableStore) -------------------------------------------------------------

type store struct {
	*raft.InmemStore
	c         *ctl
	monotonic bool
	staged    uint64
	gate      chan struct{} // when set, StoreLogs waits here first (the leader engine holds the main loop)
}

func (s *store) IsMonotonic() bool { return s.monotonic }
func (s *store) StoreLog(l *raft.Log) error {
	return s.StoreLogs([]*raft.Log{l})
}
func (s *store) StoreLogs(ls []*raft.Log) error {
	if g := s.gate; g != nil {
		<-g
	}
	if err := s.c.write(true, slDesc(ls)); err != nil {
		return err
	}
	cp := make([]*raft.Log, len(ls))
	for i, l := range ls {
		x := *l
		cp[i] = &x
	}
	return s.InmemStore.StoreLogs(cp)
}
func (s *store) DeleteRange(a, b uint64) error {
	if err := s.c.write(true, fmt.Sprintf("DR %d %d", a, b)); err != nil {
		return err
	}
	return s.InmemStore.DeleteRange(a, b)
}
func (s *store) StageCommitIndex(i uint64) error {
	if err := s.c.write(false, fmt.Sprintf("SG %d 0", i)); err != nil {
		return err
	}
	s.staged = i
	return nil
}
func (s *store) GetCommitIndex() (uint64, error) { return s.staged, nil }
func (s *store) SetUint64(k []byte, v uint64) error {
	if err := s.c.write(true, kvDesc(k, v)); err != nil {
		return err
	}
	return s.InmemStore.SetUint64(k, v)
}
func (s *store) Set(k, v []byte) error {
	if err := s.c.write(true, fmt.Sprintf("VC %s 0", v)); err != nil {
		return err
	}
	return s.InmemStore.Set(k, append([]byte{}, v...))
}

func slDesc(ls []*raft.Log) string {
	first := uint64(0)
	if len(ls) > 0 {
		first = ls[0].Index
	}
	return fmt.Sprintf("SL %d %d", len(ls), first)
}

func kvDesc(k []byte, v uint64) string {
	switch string(k) {
	case "CurrentTerm":
		return fmt.Sprintf("T %d 0", v)
	case "LastVoteTerm":
		return fmt.Sprintf("VT %d 0", v)
	}
	return fmt.Sprintf("K? %d 0", v)
}

// ---- snapshot store: atomic (visible at Close), newest first by (term, index) -----------------

type snap struct {
	meta raft.SnapshotMeta
	data []byte
	bad  bool // damaged on disk: still listed, cannot be opened
}

// damageNewest marks the newest snapshot that can still be read as unreadable; it reports the index of
// the snapshot a restart would then fall back to (0 if none) and whether anything was damaged
func (st *snapStore) damageNewest(dry bool) (fallback uint64, readable int) {
	f, r, _ := st.damageNewest3(dry)
	return f, r
}

// damageNewest3 also reports the index of the snapshot that is (or would be) damaged
func (st *snapStore) damageNewest3(dry bool) (fallback uint64, readable int, newest uint64) {
	st.mu.Lock()
	defer st.mu.Unlock()
	done := false
	for _, s := range st.snaps {
		if s.bad {
			continue
		}
		readable++
		if !done {
			done = true
			newest = s.meta.Index
			if !dry {
				s.bad = true
			}
			continue
		}
		if fallback == 0 {
			fallback = s.meta.Index
		}
	}
	return
}

type snapStore struct {
	closeDelay time.Duration // Close lingers this long after the snapshot has become visible (slow fsync of the directory)
	closing    bool          // a Close is lingering right now
	failClose  int           // the next n sink.Close calls fail (disk error at finalize)
	mu         sync.Mutex
	c          *ctl
	snaps      []*snap
	seq        int
}

type snapSink struct {
	st   *snapStore
	s    *snap
	buf  bytes.Buffer
	done bool
}

func (st *snapStore) Create(version raft.SnapshotVersion, index, term uint64, configuration raft.Configuration,
	configurationIndex uint64, trans raft.Transport) (raft.SnapshotSink, error) {
	st.mu.Lock()
	defer st.mu.Unlock()
	st.seq++
	return &snapSink{st: st, s: &snap{meta: raft.SnapshotMeta{Version: version, ID: fmt.Sprintf("%d-%d-%d", term, index, st.seq),
		Index: index, Term: term, Configuration: configuration.Clone(), ConfigurationIndex: configurationIndex}}}, nil
}

func (k *snapSink) Write(p []byte) (int, error) { return k.buf.Write(p) }
func (k *snapSink) ID() string                  { return k.s.meta.ID }
func (k *snapSink) Cancel() error               { k.done = true; return nil }
func (k *snapSink) Close() error {
	if k.done {
		return nil
	}
	k.done = true
	k.st.mu.Lock()
	if k.st.failClose > 0 {
		k.st.failClose--
		k.st.mu.Unlock()
		return errInjected
	}
	k.st.mu.Unlock()
	if err := k.st.c.write(false, fmt.Sprintf("SC %d %d", k.s.meta.Index, k.s.meta.Term)); err != nil {
		return err
	}
	k.s.data = append([]byte{}, k.buf.Bytes()...)
	k.s.meta.Size = int64(len(k.s.data))
	k.st.mu.Lock()
	defer k.st.mu.Unlock()
	var out []*snap
	for _, o := range k.st.snaps {
		if !(o.meta.Term == k.s.meta.Term && o.meta.Index == k.s.meta.Index) {
			out = append(out, o)
		}
	}
	out = append(out, k.s)
	sort.SliceStable(out, func(i, j int) bool {
		if out[i].meta.Term != out[j].meta.Term {
			return out[i].meta.Term > out[j].meta.Term
		}
		return out[i].meta.Index > out[j].meta.Index
	})
	k.st.snaps = out
	if d := k.st.closeDelay; d > 0 {
		k.st.closing = true
		k.st.mu.Unlock()
		time.Sleep(d)
		k.st.mu.Lock()
		k.st.closing = false
	}
	return nil
}

func (st *snapStore) List() ([]*raft.SnapshotMeta, error) {
	st.mu.Lock()
	defer st.mu.Unlock()
	var out []*raft.SnapshotMeta
	for _, s := range st.snaps {
		m := s.meta
		out = append(out, &m)
	}
	return out, nil
}

func (st *snapStore) Open(id string) (*raft.SnapshotMeta, io.ReadCloser, error) {
	st.mu.Lock()
	defer st.mu.Unlock()
	for _, s := range st.snaps {
		if s.meta.ID == id {
			if s.bad {
				return nil, nil, fmt.Errorf("snapshot %s is damaged", id)
			}
			m := s.meta
			return &m, io.NopCloser(bytes.NewReader(s.data)), nil
		}
	}
	return nil, nil, fmt.Errorf("no snapshot %s", id)
}

// ---- FSM --------------------------------------------------------------------------------------

type fsm struct {
	mu    sync.Mutex
	state []int    // applied payloads
	calls []string // since last drain
}

func encodeState(st []int) []byte {
	p := make([]string, len(st))
	for i, x := range st {
		p[i] = strconv.Itoa(x)
	}
	return []byte(strings.Join(p, ","))
}

func decodeState(b []byte) []int {
	if len(b) == 0 {
		return nil
	}
	var out []int
	for _, f := range strings.Split(string(b), ",") {
		x, _ := strconv.Atoi(f)
		out = append(out, x)
	}
	return out
}

func payloadOf(l *raft.Log) int {
	x, _ := strconv.Atoi(string(l.Data))
	return x
}

func (f *fsm) Apply(l *raft.Log) interface{} {
	f.mu.Lock()
	defer f.mu.Unlock()
	p := payloadOf(l)
	f.state = append(f.state, p)
	f.calls = append(f.calls, fmt.Sprintf("a %d %d %d", l.Index, l.Term, p))
	return p
}

type fsmSnap struct{ data []byte }

func (s *fsmSnap) Persist(sink raft.SnapshotSink) error {
	if _, err := sink.Write(s.data); err != nil {
		_ = sink.Cancel()
		return err
	}
	return sink.Close()
}
func (s *fsmSnap) Release() {}

func (f *fsm) Snapshot() (raft.FSMSnapshot, error) {
	f.mu.Lock()
	defer f.mu.Unlock()
	return &fsmSnap{data: encodeState(f.state)}, nil
}

func (f *fsm) Restore(rc io.ReadCloser) error {
	b, err := io.ReadAll(rc)
	if err != nil {
		return err
	}
	f.mu.Lock()
	defer f.mu.Unlock()
	f.state = decodeState(b)
	p := []string{"r", strconv.Itoa(len(f.state))}
	for _, x := range f.state {
		p = append(p, strconv.Itoa(x))
	}
	f.calls = append(f.calls, strings.Join(p, " "))
	return nil
}

func (f *fsm) drain() []string {
	f.mu.Lock()
	defer f.mu.Unlock()
	c := f.calls
	f.calls = nil
	return c
}

// ---- transport stub ---------------------------------------------------------------------------

type nullTrans struct {
	addr raft.ServerAddress
	ch   chan raft.RPC
	mu   sync.Mutex
	// answers scripted for one pass of the candidate loop, and the requests it made
	script map[int]peerResp
	sent   []sentReq
}

type peerResp struct {
	id, pvErr, pvTerm int
	pvGranted         bool
	vErr              bool
	vTerm             int
	vGranted          bool
}

type sentReq struct {
	kind                    byte // 'P' pre-vote, 'V' vote
	peer                    int
	term, lastIdx, lastTerm uint64
	transfer                bool
}

func (t *nullTrans) Consumer() <-chan raft.RPC     { return t.ch }
func (t *nullTrans) LocalAddr() raft.ServerAddress { return t.addr }
func (t *nullTrans) AppendEntriesPipeline(raft.ServerID, raft.ServerAddress) (raft.AppendPipeline, error) {
	return nil, raft.ErrPipelineReplicationNotSupported
}
func (t *nullTrans) AppendEntries(raft.ServerID, raft.ServerAddress, *raft.AppendEntriesRequest, *raft.AppendEntriesResponse) error {
	return errors.New("unreachable")
}
func (t *nullTrans) RequestVote(id raft.ServerID, _ raft.ServerAddress, req *raft.RequestVoteRequest, resp *raft.RequestVoteResponse) error {
	p, _ := strconv.Atoi(string(id))
	t.mu.Lock()
	t.sent = append(t.sent, sentReq{'V', p, req.Term, req.LastLogIndex, req.LastLogTerm, req.LeadershipTransfer})
	sc, ok := t.script[p]
	t.mu.Unlock()
	if !ok {
		return errors.New("unreachable")
	}
	time.Sleep(time.Duration(p) * time.Millisecond) // answers arrive in ascending order of peer id
	if sc.vErr {
		return errors.New("unreachable")
	}
	resp.Term, resp.Granted = uint64(sc.vTerm), sc.vGranted
	return nil
}
func (t *nullTrans) RequestPreVote(id raft.ServerID, _ raft.ServerAddress, req *raft.RequestPreVoteRequest, resp *raft.RequestPreVoteResponse) error {
	p, _ := strconv.Atoi(string(id))
	t.mu.Lock()
	t.sent = append(t.sent, sentReq{'P', p, req.Term, req.LastLogIndex, req.LastLogTerm, false})
	sc, ok := t.script[p]
	t.mu.Unlock()
	if !ok {
		return errors.New("unreachable")
	}
	time.Sleep(time.Duration(p) * time.Millisecond)
	switch sc.pvErr {
	case 1:
		return errors.New("unreachable")
	case 2:
		return errors.New("unexpected command") // a peer of an older release: no pre-vote RPC
	}
	resp.Term, resp.Granted = uint64(sc.pvTerm), sc.pvGranted
	return nil
}
func (t *nullTrans) InstallSnapshot(raft.ServerID, raft.ServerAddress, *raft.InstallSnapshotRequest, *raft.InstallSnapshotResponse, io.Reader) error {
	return errors.New("unreachable")
}
func (t *nullTrans) EncodePeer(id raft.ServerID, a raft.ServerAddress) []byte { return []byte(a) }
func (t *nullTrans) DecodePeer(b []byte) raft.ServerAddress                   { return raft.ServerAddress(b) }
func (t *nullTrans) SetHeartbeatHandler(func(raft.RPC))                       {}
func (t *nullTrans) TimeoutNow(raft.ServerID, raft.ServerAddress, *raft.TimeoutNowRequest, *raft.TimeoutNowResponse) error {
	return errors.New("unreachable")
}
