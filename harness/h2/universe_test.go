package h2

import (
	"bufio"
	"fmt"
	"math/rand"
	"strconv"
	"strings"

	"github.com/hashicorp/raft"
)

// The "universe": an abstract, adversarial but *Raft-consistent* rest of the cluster.  It keeps a
// committed history H and one log per elected term (each contains H as of its election: leader
// completeness; logs of one universe satisfy log matching by construction), and produces the
// messages real leaders and candidates of such a cluster could send.  Every message ever produced
// stays in a pool and may be delivered late, twice or out of order.  The server under test (id 1)
// is a voter that only ever receives.
type uni struct {
	rng     *rand.Rand
	H       []entry
	hTerm   []int // the term in which each entry of H became committed (non-decreasing)
	logs    map[int][]entry
	leader  map[int]int
	maxTerm int
	pool    []event
	pay     int
}

func (u *uni) payload() int { u.pay++; return u.pay }

func lcp(a, b []entry) int {
	n := 0
	for n < len(a) && n < len(b) && a[n].term == b[n].term {
		n++
	}
	return n
}

func cfgAt(log []entry, idx int) ([]srv, int) {
	var c []srv
	ci := 0
	for _, e := range log {
		if e.idx > idx {
			break
		}
		if e.kind == 5 {
			c, ci = e.cfg, e.idx
		}
	}
	return c, ci
}

func fold(log []entry, idx int) []int {
	var out []int
	for _, e := range log {
		if e.idx > idx {
			break
		}
		if e.kind == 0 {
			out = append(out, e.data)
		}
	}
	return out
}

func newUni(rng *rand.Rand) *uni {
	u := &uni{rng: rng, logs: map[int][]entry{}, leader: map[int]int{}}
	first := entry{idx: 1, term: 1, kind: 5, cfg: baseCfg}
	u.H = []entry{first}
	u.hTerm = []int{1}
	u.logs[1] = []entry{first}
	u.leader[1] = 2
	u.maxTerm = 1
	return u
}

func (u *uni) cur() []entry { return u.logs[u.maxTerm] }

func (u *uni) appendCmd() {
	t := u.maxTerm
	l := u.logs[t]
	for i, n := 0, 1+u.rng.Intn(3); i < n; i++ {
		k := []int{0, 0, 0, 0, 4, 1, 5}[u.rng.Intn(7)]
		if k == 5 {
			// a real leader appends a configuration only when the previous one is committed and an
			// entry of its own term is committed (C07's gate)
			gate := len(u.H) > 0 && u.H[len(u.H)-1].term == t
			for _, x := range l {
				if x.kind == 5 && x.idx > len(u.H) {
					gate = false
				}
			}
			if !gate {
				k = 0
			}
		}
		e := entry{idx: len(l) + 1, term: t, kind: k}
		if k == 5 {
			c, _ := cfgAt(l, len(l))
			if len(c) > 3 {
				e.cfg = baseCfg
			} else {
				e.cfg = append(append([]srv{}, baseCfg...), srv{1, 4, 14})
			}
		} else {
			e.data = u.payload()
		}
		l = append(l, e)
	}
	u.logs[t] = l
}

func (u *uni) commit() {
	l := u.cur()
	if len(l) <= len(u.H) {
		return
	}
	k := len(u.H) + 1 + u.rng.Intn(len(l)-len(u.H))
	if l[k-1].term != u.maxTerm {
		return // current-term rule
	}
	for len(u.hTerm) < k {
		u.hTerm = append(u.hTerm, u.maxTerm)
	}
	u.H = append([]entry{}, l[:k]...)
}

// newLeader elects a leader for a new term whose log holds all of H (leader completeness)
func (u *uni) newLeader() {
	var bases []int
	for t, l := range u.logs {
		if lcp(l, u.H) == len(u.H) {
			bases = append(bases, t)
		}
	}
	// deterministic order
	for i := 0; i < len(bases); i++ {
		for j := i + 1; j < len(bases); j++ {
			if bases[j] < bases[i] {
				bases[i], bases[j] = bases[j], bases[i]
			}
		}
	}
	bt := bases[u.rng.Intn(len(bases))]
	bl := u.logs[bt]
	cut := len(u.H) + u.rng.Intn(len(bl)-len(u.H)+1)
	base := append([]entry{}, bl[:cut]...)
	t := u.maxTerm + 1 + u.rng.Intn(2)
	id := 2 + u.rng.Intn(2)
	// its RequestVote (sent before it won)
	lt := 0
	if len(base) > 0 {
		lt = base[len(base)-1].term
	}
	u.pool = append(u.pool, event{kind: 'V', peer: 10 + id, peerID: id, term: t, lastIdx: len(base), lastTerm: lt, failAt: -1, crashAt: -1})
	base = append(base, entry{idx: len(base) + 1, term: t, kind: 1, data: u.payload()})
	u.logs[t] = base
	u.leader[t] = id
	u.maxTerm = t
}

// a candidate that cannot win: its log is some prefix of some branch
func (u *uni) loserVote() {
	var ts []int
	for t := range u.logs {
		ts = append(ts, t)
	}
	for i := 0; i < len(ts); i++ {
		for j := i + 1; j < len(ts); j++ {
			if ts[j] < ts[i] {
				ts[i], ts[j] = ts[j], ts[i]
			}
		}
	}
	l := u.logs[ts[u.rng.Intn(len(ts))]]
	n := u.rng.Intn(len(l) + 1)
	lt := 0
	if n > 0 {
		lt = l[n-1].term
	}
	id := 2 + u.rng.Intn(3)
	t := u.maxTerm + u.rng.Intn(2)
	if u.rng.Intn(4) == 0 {
		t = u.maxTerm + 1 // does not become the universe's leader: it loses
	}
	u.pool = append(u.pool, event{kind: 'V', peer: 10 + id, peerID: id, term: t, lastIdx: n, lastTerm: lt,
		transfer: u.rng.Intn(10) == 0, failAt: -1, crashAt: -1})
	if u.rng.Intn(3) == 0 {
		u.pool = append(u.pool, event{kind: 'P', peer: 10 + id, peerID: id, term: t + 1, lastIdx: n, lastTerm: lt, failAt: -1, crashAt: -1})
	}
}

func (u *uni) pickLeaderTerm() int {
	if u.rng.Intn(4) != 0 {
		return u.maxTerm
	}
	var ts []int
	for t := range u.logs {
		ts = append(ts, t)
	}
	for i := 0; i < len(ts); i++ {
		for j := i + 1; j < len(ts); j++ {
			if ts[j] < ts[i] {
				ts[i], ts[j] = ts[j], ts[i]
			}
		}
	}
	return ts[u.rng.Intn(len(ts))]
}

func (u *uni) genAE(sLast int) {
	t := u.pickLeaderTerm()
	l := u.logs[t]
	ct := lcp(l, u.H)
	if ct > len(u.H) {
		ct = len(u.H)
	}
	var next int
	switch x := u.rng.Intn(10); {
	case x < 5:
		next = sLast + 1
	case x < 7:
		next = sLast - u.rng.Intn(3)
	case x < 8:
		next = 1
	default:
		next = 1 + u.rng.Intn(len(l)+1)
	}
	if next < 1 {
		next = 1
	}
	if next > len(l)+1 {
		next = len(l) + 1
	}
	e := event{kind: 'A', peer: 10 + u.leader[t], peerID: u.leader[t], term: t, prevIdx: next - 1, failAt: -1, crashAt: -1}
	if next > 1 {
		e.prevTerm = l[next-2].term
	}
	n := []int{0, 1, 2, 3, 4}[u.rng.Intn(5)]
	for i := 0; i < n && next-1+i < len(l); i++ {
		e.entries = append(e.entries, l[next-1+i])
	}
	if u.rng.Intn(3) == 0 {
		e.commit = u.rng.Intn(ct + 1)
	} else {
		e.commit = ct
	}
	u.pool = append(u.pool, e)
}

func (u *uni) genIS() {
	t := u.pickLeaderTerm()
	l := u.logs[t]
	ct := lcp(l, u.H)
	if ct < 1 {
		return
	}
	s := ct - u.rng.Intn(min(ct, 3))
	if u.rng.Intn(4) == 0 {
		s = 1 + u.rng.Intn(ct)
	}
	c, ci := cfgAt(u.H, s)
	u.pool = append(u.pool, event{kind: 'I', peer: 10 + u.leader[t], peerID: u.leader[t], term: t, lastIdx: s, lastTerm: u.H[s-1].term,
		cfg: c, cfgIdx: ci, data: fold(u.H, s), sizeOk: u.rng.Intn(12) != 0, failAt: -1, crashAt: -1})
}

func runUniverseCase(rng *rand.Rand, thorough bool, out *bufio.Writer, st *stats, seen map[string]bool) {
	u := newUni(rng)
	// some history before the server under test appears
	for i, n := 0, rng.Intn(8); i < n; i++ {
		switch rng.Intn(4) {
		case 0:
			u.newLeader()
		case 1:
			u.commit()
		default:
			u.appendCmd()
		}
	}
	mono := rng.Intn(3) == 0
	restoreC := rng.Intn(3) == 0
	trailing := 1 + rng.Intn(3)
	w := newWorld(mono, restoreC, trailing, 3)
	// initial image: a prefix of some leader's log, optionally snapshotted/compacted below the
	// committed prefix; term at least that leader's
	var ts []int
	for t := range u.logs {
		ts = append(ts, t)
	}
	for i := 0; i < len(ts); i++ {
		for j := i + 1; j < len(ts); j++ {
			if ts[j] < ts[i] {
				ts[i], ts[j] = ts[j], ts[i]
			}
		}
	}
	bt := ts[rng.Intn(len(ts))]
	bl := u.logs[bt]
	n := rng.Intn(len(bl) + 1)
	log := append([]entry{}, bl[:n]...)
	curTerm := 0
	if n > 0 {
		curTerm = bt
		if rng.Intn(3) == 0 {
			curTerm = bt + rng.Intn(u.maxTerm-bt+1)
		}
	}
	w.c.reset(-1, -1)
	if curTerm > 0 {
		_ = w.st.InmemStore.SetUint64([]byte("CurrentTerm"), uint64(curTerm))
		if rng.Intn(3) == 0 {
			_ = w.st.InmemStore.SetUint64([]byte("LastVoteTerm"), uint64(curTerm))
			_ = w.st.InmemStore.Set([]byte("LastVoteCand"), []byte(strconv.Itoa(10+u.leader[bt])))
		}
	}
	cn := min(n, lcp(bl, u.H))
	if cn > len(u.H) {
		cn = len(u.H)
	}
	// what a server whose term is curTerm can know to be committed: entries committed by leaders of
	// terms up to its own (a later commit would have reached it together with that later term)
	for cn > 0 && u.hTerm[cn-1] > curTerm {
		cn--
	}
	staged := 0
	if cn > 0 {
		staged = rng.Intn(cn + 1)
	}
	w.st.staged = uint64(staged)
	if cn >= 2 && rng.Intn(3) == 0 {
		si := 1 + rng.Intn(cn)
		c, ci := cfgAt(log, si)
		sk, _ := w.snaps.Create(1, uint64(si), uint64(log[si-1].term), mkCfg(c), uint64(ci), nil)
		_, _ = sk.Write(encodeState(fold(log, si)))
		_ = sk.Close()
		so := 0
		if si >= 2 && rng.Intn(2) == 0 { // an older snapshot is retained as well
			so = 1 + rng.Intn(si-1)
			c2, ci2 := cfgAt(log, so)
			sk2, _ := w.snaps.Create(1, uint64(so), uint64(log[so-1].term), mkCfg(c2), uint64(ci2), nil)
			_, _ = sk2.Write(encodeState(fold(log, so)))
			_ = sk2.Close()
		}
		if rng.Intn(2) == 0 {
			cut := 1 + rng.Intn(si)
			if so > 0 && rng.Intn(4) != 0 {
				cut = 1 + rng.Intn(so)
			}
			log = log[cut:]
		}
	}
	var ls []*raft.Log
	for _, e := range log {
		ls = append(ls, e.log())
	}
	if len(ls) > 0 {
		_ = w.st.InmemStore.StoreLogs(ls)
	}
	initDur := w.durableTok()
	var evs, obs []string
	var hlens []int
	w.start()
	obs = append(obs, w.obs(false, "n"))
	nev := 4 + rng.Intn(12)
	if thorough {
		nev = 8 + rng.Intn(40)
	}
	tags := map[string]bool{}
	for i := 0; i < nev && !w.dead; {
		// the universe moves
		switch x := rng.Intn(20); {
		case x < 2:
			u.newLeader()
		case x < 5:
			u.appendCmd()
		case x < 8:
			u.commit()
		case x < 9:
			u.loserVote()
		case x < 10:
			u.genIS()
		default:
			d := w.r.VerifDump()
			sl := int(d.LastLogIndex)
			if int(d.LastSnapshotIndex) > sl {
				sl = int(d.LastSnapshotIndex)
			}
			u.genAE(sl)
		}
		if len(u.pool) == 0 || rng.Intn(3) == 0 {
			continue
		}
		// deliver something: mostly recent, sometimes old (delayed / duplicated)
		var e event
		if rng.Intn(12) == 0 {
			e = event{kind: 'R', failAt: -1, crashAt: -1}
		} else if rng.Intn(12) == 0 {
			e = event{kind: 'K', failAt: -1, crashAt: -1} // a local snapshot
			if rng.Intn(6) == 0 {
				e.crashAt = rng.Intn(3)
			}
		} else {
			k := len(u.pool) - 1 - rng.Intn(min(len(u.pool), 4))
			if rng.Intn(5) == 0 {
				k = rng.Intn(len(u.pool))
			}
			e = u.pool[k]
			e.failAt, e.crashAt = -1, -1
			switch rng.Intn(10) {
			case 0:
				e.failAt = rng.Intn(4)
			case 1:
				e.crashAt = rng.Intn(4)
			}
			if e.kind == 'P' {
				e.failAt, e.crashAt = -1, -1
			}
			if e.kind == 'I' && e.failAt > 0 {
				e.failAt = -1
			}
		}
		if e.kind == 'R' && rng.Intn(2) == 0 && w.damageOK() && w.logHoldsCommitted(u.H) {
			e.kind = 'D'
		}
		evs = append(evs, e.tok())
		hlens = append(hlens, len(u.H))
		o := w.apply(e)
		obs = append(obs, o)
		f := strings.Fields(o)
		tag := string(e.kind)
		if len(f) > 2 && f[0] == "O" {
			switch f[2] {
			case "v", "p":
				tag += ":granted=" + f[4]
			case "a":
				tag += ":success=" + f[5]
			case "i":
				tag += ":success=" + f[4]
			}
			if f[1] == "1" {
				tag += ":crashed"
			}
		}
		tags[tag] = true
		st.Hist[tag]++
		i++
	}
	w.stop()
	var hs []string
	for _, e := range u.H {
		hs = append(hs, e.tok())
	}
	caseLine := fmt.Sprintf("U %d %s HL %s CF %d %d %d %d 0 DU %s EV %d %s", len(u.H), strings.Join(hs, " "), intsTok(hlens),
		b2i(mono), b2i(restoreC), trailing, 3, initDur, len(evs), strings.Join(evs, " "))
	caseLine = strings.Join(strings.Fields(caseLine), " ")
	implLine := fmt.Sprintf("%d %s", len(obs), strings.Join(obs, " "))
	fmt.Fprintln(out, caseLine)
	fmt.Fprintln(out, implLine)
	st.Cases++
	nontrivial := false
	for t := range tags {
		if strings.Contains(t, "granted=1") || strings.Contains(t, "success=1") {
			nontrivial = true
		}
	}
	if nontrivial && !seen[caseLine] {
		seen[caseLine] = true
		st.Distinct++
		if len(st.Samples) < 3 {
			smp := caseLine + " => " + implLine
			if len(smp) > 600 {
				smp = smp[:600] + " ..."
			}
			st.Samples = append(st.Samples, smp)
		}
	}
}

// logHoldsCommitted: the premise of the damaged-restart fault, in substance - what only the snapshot
// about to be lost holds must be in the log as committed: a stale entry left under that snapshot (by a
// crash between persisting an installed snapshot and dropping the suffix it replaces) is not a copy
// of the committed entry, and losing the only copy to a disk fault is not a fault Raft recovers from
func (w *world) logHoldsCommitted(H []entry) bool {
	fb, _, newest := w.snaps.damageNewest3(true)
	for i := fb + 1; i <= newest; i++ {
		var l raft.Log
		if w.st.InmemStore.GetLog(i, &l) != nil {
			return false
		}
		if int(i) > len(H) || int(l.Term) != H[i-1].term {
			return false
		}
	}
	return true
}
