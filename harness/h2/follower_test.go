package h2

// Engine "follower": the real follower loop (runFollower) on one real server: requests of other
// servers and API calls go through the loop, and virtual time is advanced past the heartbeat timeout
// so that the loop's own timer fires.  Stepped against SV.stepLeader (events heartbeatTimeout / idle /
// rpc / calls with no leader loop running): a server becomes a candidate only as a voter of a known
// configuration, a timeout forgets the leader, calls that need a leader are refused at once.  When
// the loop has made the server a candidate, one or two passes of the real candidate loop follow.

import (
	"bufio"
	"fmt"
	"math/rand"
	"strings"
	"testing/synctest"
	"time"

	"github.com/hashicorp/raft"
)

func runFollowerCase(rng *rand.Rand, thorough bool, out *bufio.Writer, st *stats, seen map[string]bool) {
	cfgs := [][]srv{
		nil, // no configuration at all
		{{0, 1, 11}},
		{{0, 1, 11}, {0, 2, 12}},
		baseCfg, baseCfg,
		{{1, 1, 11}, {0, 2, 12}, {0, 3, 13}}, // this server is a non-voter
		{{2, 1, 11}, {0, 2, 12}, {0, 3, 13}}, // staging
		{{0, 2, 12}, {0, 3, 13}},             // not listed
		{{0, 2, 12}, {0, 1, 11}, {1, 3, 13}, {0, 4, 14}},
	}
	cfg := cfgs[rng.Intn(len(cfgs))]
	w := newWorld(rng.Intn(4) == 0, rng.Intn(3) == 0, 1+rng.Intn(3), 3)
	w.noPV = rng.Intn(4) == 0
	var log []entry
	term := 1
	pay := 0
	if cfg != nil {
		log = append(log, entry{idx: 1, term: 1, kind: 5, cfg: cfg})
		n := 1 + rng.Intn(5)
		for i := 2; i <= n; i++ {
			if rng.Intn(3) == 0 {
				term++
			}
			pay++
			k := []int{0, 0, 1, 4}[rng.Intn(4)]
			e := entry{idx: i, term: term, kind: k, data: pay}
			if rng.Intn(6) == 0 { // a later configuration entry (not known to be committed after a restart)
				c2 := append(append([]srv{}, cfg...), srv{1, 5, 15})
				if rng.Intn(2) == 0 && len(cfg) > 1 { // ... that may take this server's vote away, or give it one
					c2 = nil
					for _, s := range cfg {
						if s.id == 1 {
							s.suff = 1 - min(s.suff, 1)
						}
						c2 = append(c2, s)
					}
				}
				e = entry{idx: i, term: term, kind: 5, cfg: c2}
			}
			log = append(log, e)
		}
	}
	curTerm := term + rng.Intn(2)
	w.populate(curTerm, 0, false, 0, log, rng.Intn(len(log)+1), nil)
	initDur := w.durableTok()
	lt := &leadTrans{pendAE: map[int]*pendReq{}, pendHB: map[int]*pendReq{}, closed: make(chan struct{})}
	w.wrapTrans = func(nt *nullTrans) raft.Transport { lt.nullTrans = nt; return lt }
	l := &leadRun{w: w, t: lt, nextID: 1}
	var evs, obs []string
	step := func(ev, ob string) {
		evs = append(evs, ev)
		obs = append(obs, ob)
	}
	w.start()
	boot := w.obs(false, "n")
	if w.dead {
		w.stop()
		return
	}
	// the follower loop
	done := make(chan struct{})
	r := w.r
	go func() {
		defer close(done)
		defer func() { _ = recover() }()
		r.VerifRunFollower()
	}()
	running := func() bool {
		select {
		case <-done:
			return false
		default:
			return true
		}
	}
	w.c.reset(-1, -1)
	step("FQ", l.obsNow("n"))
	nev := 3 + rng.Intn(8)
	if thorough {
		nev = 5 + rng.Intn(16)
	}
	contact := false
	after := 0
	for i := 0; i < nev && !w.dead; i++ {
		if !running() {
			// the loop has ended (the server is a candidate): passes of the candidate loop
			after++
			if after > 2 || w.r.VerifDump().State != raft.Candidate {
				break
			}
			d := w.r.VerifDump()
			g := event{kind: 'G', failAt: -1, crashAt: -1}
			for _, sv := range unCfg(d.Latest) {
				if sv.id != 1 && rng.Intn(4) != 0 {
					g.resps = append(g.resps, peerResp{id: sv.id, pvTerm: int(d.Term) + 1, vTerm: int(d.Term) + 1, pvGranted: rng.Intn(3) != 0, vGranted: rng.Intn(3) != 0})
				}
			}
			step("R "+g.tok(), l.observe(w.apply(g)))
			st.Hist["campaign-after-timeout"]++
			continue
		}
		w.c.reset(-1, -1)
		switch x := rng.Intn(10); {
		case x < 3: // the heartbeat timeout passes without contact
			time.Sleep(4100 * time.Millisecond) // two timer periods at most: the second firing is at least a heartbeat timeout after any contact
			contact = false
			step("FT", l.obsNow("n"))
			st.Hist["heartbeat-timeout"]++
		case x < 4 && contact: // a little time passes after a contact: nothing is due
			time.Sleep(300 * time.Millisecond)
			contact = false
			step("FQ", l.obsNow("n"))
			st.Hist["quiet-after-contact"]++
		case x < 8: // a request from another server, through the loop
			g := &gen{rng: rng, w: w, pay: 7000 + pay}
			e := g.event()
			for e.kind == 'R' || e.kind == 'K' || e.kind == 'S' || e.kind == 'T' {
				e = g.event()
			}
			e.crashAt, e.failAt = -1, -1
			rpc, ch := e.rpc()
			w.trans.ch <- rpc
			synctest.Wait()
			resp := "n"
			select {
			case rr := <-ch:
				resp = respTok(rr)
				if a, ok := rr.Response.(*raft.AppendEntriesResponse); ok && a.Success {
					contact = true
				}
				if a, ok := rr.Response.(*raft.InstallSnapshotResponse); ok && a.Success {
					contact = true
				}
			default:
			}
			step("R "+e.tok(), l.observe(w.obs(false, resp)))
			st.Hist["rpc-through-the-loop"]++
		default: // calls that need a leader
			k := 1 + rng.Intn(3)
			var toks []string
			for j := 0; j < k; j++ {
				c := apiCall{kind: []byte{'a', 'b', 'c', 'v'}[rng.Intn(4)], assignedID: l.nextID}
				if c.kind == 'a' {
					pay++
					c.data = pay
				}
				if c.kind == 'c' {
					c.cmd, c.id = rng.Intn(4), 2+rng.Intn(4)
					c.addr = 10 + c.id
				}
				l.nextID++
				toks = append(toks, c.tok())
				l.issue(c)
				synctest.Wait()
			}
			step(fmt.Sprintf("C %d %s 0", k, strings.Join(toks, " ")), l.obsNow("n"))
			st.Hist["calls-refused"]++
		}
	}
	became := w.r != nil && !w.dead && w.r.VerifDump().State != raft.Follower
	close(lt.closed)
	w.stop()
	synctest.Wait()
	caseLine := fmt.Sprintf("CF %d %d %d %d %d DU %s EV %d %s", b2i(w.mono), b2i(w.restoreC), w.trailing, w.maxAE, b2i(w.noPV), initDur, len(evs), strings.Join(evs, " "))
	caseLine = strings.Join(strings.Fields(caseLine), " ")
	implLine := fmt.Sprintf("%s %d %s", boot, len(obs), strings.Join(obs, " "))
	fmt.Fprintln(out, caseLine)
	fmt.Fprintln(out, implLine)
	st.Cases++
	if became {
		st.Hist["left-the-follower-state"]++
	}
	if cfg == nil {
		st.Hist["no-configuration"]++
	}
	if !seen[caseLine] {
		seen[caseLine] = true
		st.Distinct++
		if len(st.Samples) < 3 {
			smp := caseLine + " => " + implLine
			if len(smp) > 600 {
				smp = smp[:600] + " ..."
			}
			st.Samples = append(st.Samples, smp)
		}
	}
}
