package h2

import (
	"bufio"
	"bytes"
	"encoding/json"
	"errors"
	"flag"
	"fmt"
	"io"
	"math/rand"
	"os"
	"sort"
	"strconv"
	"strings"
	"testing"
	"testing/synctest"
	"time"

	"github.com/hashicorp/raft"
)

var (
	flagEngine   = flag.String("engine", "", "engine")
	flagSeed     = flag.Int64("seed", 1, "seed")
	flagN        = flag.Int("n", 200, "cases")
	flagOut      = flag.String("out", "", "output file")
	flagThorough = flag.Bool("thorough", false, "thorough tier")
	flagOnly     = flag.Int("only", -1, "run only this case number (cluster engine)")
)

type stats struct {
	Engine   string         `json:"engine"`
	Cases    int            `json:"cases"`
	Distinct int            `json:"distinct_nontrivial"`
	Rule     string         `json:"rule"`
	Hist     map[string]int `json:"histogram"`
	Samples  []string       `json:"samples"`
}

// ---------------------------------------------------------------------------------------------
// entries, configurations

type srv struct{ suff, id, addr int }
type entry struct {
	idx, term, kind, data int
	cfg                   []srv
}
type snapRec struct {
	idx, term, cfgIdx int
	cfg               []srv
	data              []int
}

var kindToType = []raft.LogType{raft.LogCommand, raft.LogNoop, raft.LogAddPeerDeprecated, raft.LogRemovePeerDeprecated, raft.LogBarrier, raft.LogConfiguration}

func typeToKind(t raft.LogType) int {
	for i, k := range kindToType {
		if k == t {
			return i
		}
	}
	return 9
}

func mkCfg(c []srv) raft.Configuration {
	var out raft.Configuration
	for _, s := range c {
		out.Servers = append(out.Servers, raft.Server{Suffrage: raft.ServerSuffrage(s.suff), ID: raft.ServerID(strconv.Itoa(s.id)), Address: raft.ServerAddress(strconv.Itoa(s.addr))})
	}
	return out
}

func unCfg(c raft.Configuration) []srv {
	var out []srv
	for _, s := range c.Servers {
		id, _ := strconv.Atoi(string(s.ID))
		ad, _ := strconv.Atoi(string(s.Address))
		out = append(out, srv{int(s.Suffrage), id, ad})
	}
	return out
}

func cfgTok(c []srv) string {
	p := []string{strconv.Itoa(len(c))}
	for _, s := range c {
		p = append(p, strconv.Itoa(s.suff), strconv.Itoa(s.id), strconv.Itoa(s.addr))
	}
	return strings.Join(p, " ")
}

func (e entry) tok() string {
	return fmt.Sprintf("%d %d %d %d %s", e.idx, e.term, e.kind, e.data, cfgTok(e.cfg))
}

func (e entry) log() *raft.Log {
	l := &raft.Log{Index: uint64(e.idx), Term: uint64(e.term), Type: kindToType[e.kind]}
	if e.kind == 5 {
		l.Data = raft.EncodeConfiguration(mkCfg(e.cfg))
	} else {
		l.Data = []byte(strconv.Itoa(e.data))
	}
	return l
}

func fromLog(l *raft.Log) entry {
	e := entry{idx: int(l.Index), term: int(l.Term), kind: typeToKind(l.Type)}
	if l.Type == raft.LogConfiguration {
		e.cfg = unCfg(raft.DecodeConfiguration(l.Data))
	} else {
		e.data, _ = strconv.Atoi(string(l.Data))
	}
	return e
}

func intsTok(xs []int) string {
	p := []string{strconv.Itoa(len(xs))}
	for _, x := range xs {
		p = append(p, strconv.Itoa(x))
	}
	return strings.Join(p, " ")
}

func b2i(b bool) int {
	if b {
		return 1
	}
	return 0
}

// ---------------------------------------------------------------------------------------------
// the world: stores that survive restarts + the current instance

type world struct {
	c        *ctl
	st       *store
	snaps    *snapStore
	fsm      *fsm
	r        *raft.Raft
	trans    *nullTrans
	mono     bool
	restoreC bool
	noPV     bool // PreVoteDisabled
	trailing int
	maxAE    int
	dead     bool
	// what the latest RPC event answered (for engines that relay real requests)
	lastResp interface{}
	lastErr  error
	notify   chan bool
	// slow NotifyCh reader (leader engine): the channel is unbuffered and read only at observation
	// points; each value is taken together with what LeaderCh holds at that moment (0 / 1, 2 = empty)
	slowNotify    bool
	noteN, noteLC []int
	// an optional transport put around the null transport (the catch-up engine's leader)
	wrapTrans func(*nullTrans) raft.Transport
}

func newWorld(mono, restoreC bool, trailing, maxAE int) *world {
	c := &ctl{failAt: -1, crashAt: -1}
	return &world{c: c, st: &store{InmemStore: raft.NewInmemStore(), c: c, monotonic: mono}, snaps: &snapStore{c: c},
		mono: mono, restoreC: restoreC, trailing: trailing, maxAE: maxAE}
}

// start builds a fresh instance on the surviving stores (NewRaft).  Returns false if NewRaft
// fails or panics.
func (w *world) start() (ok bool) {
	w.stop()
	w.fsm = &fsm{}
	conf := raft.DefaultConfig()
	conf.LocalID = "1"
	conf.LogOutput = io.Discard
	conf.TrailingLogs = uint64(w.trailing)
	conf.MaxAppendEntries = w.maxAE
	conf.RestoreCommittedLogs = w.restoreC
	conf.PreVoteDisabled = w.noPV
	conf.ShutdownOnRemove = false
	conf.LeaderLeaseTimeout = 250 * time.Millisecond // (a quarter of the heartbeat timeout; only the leader engine lets it run)
	w.notify = make(chan bool, 256)
	if w.slowNotify {
		w.notify = make(chan bool)
	}
	conf.NotifyCh = w.notify
	w.trans = &nullTrans{addr: "11", ch: make(chan raft.RPC)}
	w.c.reset(-1, -1)
	defer func() {
		if p := recover(); p != nil {
			ok = false
			w.r = nil
			w.dead = true
		}
	}()
	var tr raft.Transport = w.trans
	if w.wrapTrans != nil {
		tr = w.wrapTrans(w.trans)
	}
	r, err := raft.VerifNewRaftNoStart(conf, w.fsm, w.st, w.st, w.snaps, tr)
	if err != nil {
		w.dead = true
		return false
	}
	w.r = r
	r.VerifStartFSM()
	synctest.Wait()
	return true
}

func (w *world) stop() {
	if w.r != nil {
		w.r.VerifStopBackground()
		w.r = nil
	}
}

func (w *world) storeEntries() []entry {
	lo, _ := w.st.InmemStore.FirstIndex()
	hi, _ := w.st.InmemStore.LastIndex()
	var out []entry
	if hi == 0 || hi-lo > 5000 {
		// scan a bounded window anyway: entries may sit outside [lo,hi] after quirky deletes
		hi = 80
		lo = 1
	}
	if lo > 1 {
		lo = 1
	}
	for i := lo; i <= hi+8; i++ {
		var l raft.Log
		if w.st.InmemStore.GetLog(i, &l) == nil {
			out = append(out, fromLog(&l))
		}
	}
	return out
}

func (w *world) durableTok() string {
	ct, _ := w.st.InmemStore.GetUint64([]byte("CurrentTerm"))
	vt, _ := w.st.InmemStore.GetUint64([]byte("LastVoteTerm"))
	vc, err := w.st.InmemStore.Get([]byte("LastVoteCand"))
	present, cand := 0, 0
	if err == nil {
		present = 1
		cand, _ = strconv.Atoi(string(vc))
	}
	lo, _ := w.st.InmemStore.FirstIndex()
	hi, _ := w.st.InmemStore.LastIndex()
	es := w.storeEntries()
	p := []string{fmt.Sprint(ct), fmt.Sprint(vt), fmt.Sprint(present), fmt.Sprint(cand), fmt.Sprint(lo), fmt.Sprint(hi), fmt.Sprint(len(es))}
	for _, e := range es {
		p = append(p, e.tok())
	}
	p = append(p, fmt.Sprint(w.st.staged), fmt.Sprint(len(w.snaps.snaps)))
	for _, s := range w.snaps.snaps {
		p = append(p, fmt.Sprintf("%d %d %d %s %s %d", s.meta.Index, s.meta.Term, s.meta.ConfigurationIndex, cfgTok(unCfg(s.meta.Configuration)), intsTok(decodeState(s.data)), b2i(!s.bad)))
	}
	return strings.Join(p, " ")
}

func (w *world) volTok() string {
	d := w.r.VerifDump()
	la, _ := strconv.Atoi(string(d.LeaderAddr))
	li, _ := strconv.Atoi(string(d.LeaderID))
	return fmt.Sprintf("%d %d %d %d %d %d %d %d %d %s %d %s %d %d %d", d.Term, int(d.State), d.LastLogIndex, d.LastLogTerm,
		d.LastSnapshotIndex, d.LastSnapshotTerm, d.CommitIndex, d.LastApplied, d.LatestIndex, cfgTok(unCfg(d.Latest)),
		d.CommittedIndex, cfgTok(unCfg(d.Committed)), la, li, b2i(d.CandidateFromLeadershipTransfer))
}

func (w *world) fsmTok() string {
	c := w.fsm.drain()
	return fmt.Sprintf("%d %s", len(c), strings.Join(c, " "))
}

// obs renders one observation; writes = performed durable writes of the event
// pumpNotify takes the notifications the main goroutine is waiting to deliver, one at a time
func (w *world) pumpNotify() {
	for w.r != nil {
		select {
		case b := <-w.notify:
			lc := 2
			select {
			case v := <-w.r.LeaderCh():
				lc = b2i(v)
			default:
			}
			w.noteN, w.noteLC = append(w.noteN, b2i(b)), append(w.noteLC, lc)
			synctest.Wait()
			continue
		default:
		}
		return
	}
}

func (w *world) obs(panicked bool, resp string) string {
	if w.slowNotify {
		w.pumpNotify()
	}
	if w.dead {
		return "X " + w.durableTok()
	}
	wr := fmt.Sprintf("%d %s", len(w.c.ops), strings.Join(w.c.ops, " "))
	return strings.Join(strings.Fields(fmt.Sprintf("O %d %s W %s V %s D %s F %s", b2i(panicked), resp, wr, w.volTok(), w.durableTok(), w.fsmTok())), " ")
}

// ---------------------------------------------------------------------------------------------
// events

type event struct {
	kind                      byte // V P A I T R S
	peer, peerID, term        int
	lastIdx, lastTerm         int
	transfer                  bool
	prevIdx, prevTerm, commit int
	entries                   []entry
	cfgIdx                    int
	cfg                       []srv
	data                      []int
	sizeOk                    bool
	failAt, crashAt           int // -1 none
	role, leader, leaderID    int
	resps                     []peerResp
}

func (e event) tok() string {
	fc := fmt.Sprintf("%d %d", e.failAt+1, e.crashAt+1)
	switch e.kind {
	case 'V':
		return fmt.Sprintf("V %d %d %d %d %d %d %s", e.peer, e.peerID, e.term, e.lastIdx, e.lastTerm, b2i(e.transfer), fc)
	case 'P':
		return fmt.Sprintf("P %d %d %d %d %d", e.peer, e.peerID, e.term, e.lastIdx, e.lastTerm)
	case 'A':
		p := []string{fmt.Sprintf("A %d %d %d %d %d %d %d", e.peer, e.peerID, e.term, e.prevIdx, e.prevTerm, e.commit, len(e.entries))}
		for _, x := range e.entries {
			p = append(p, x.tok())
		}
		p = append(p, fc)
		return strings.Join(p, " ")
	case 'I':
		return fmt.Sprintf("I %d %d %d %d %d %d %s %s %d %s", e.peer, e.peerID, e.term, e.lastIdx, e.lastTerm, e.cfgIdx, cfgTok(e.cfg), intsTok(e.data), b2i(e.sizeOk), fc)
	case 'S':
		return fmt.Sprintf("S %d %d %d", e.role, e.leader, e.leaderID)
	case 'D':
		return "RD"
	case 'K':
		return "K " + fc
	case 'G':
		p := []string{"G", strconv.Itoa(len(e.resps))}
		if e.failAt >= 0 {
			p[0] = "GF" // a pass of the candidate loop during which the write with this ordinal fails
		}
		for _, r := range e.resps {
			p = append(p, fmt.Sprintf("%d %d %d %d %d %d %d", r.id, r.pvErr, r.pvTerm, b2i(r.pvGranted), b2i(r.vErr), r.vTerm, b2i(r.vGranted)))
		}
		if e.failAt >= 0 {
			p = append(p, strconv.Itoa(e.failAt))
		}
		return strings.Join(p, " ")
	}
	return string(e.kind)
}

func intsJoin(a []int) string {
	p := make([]string, len(a))
	for i, x := range a {
		p[i] = strconv.Itoa(x)
	}
	return strings.Join(p, " ")
}

func hdr(id, addr int) raft.RPCHeader {
	h := raft.RPCHeader{ProtocolVersion: raft.ProtocolVersionMax, Addr: []byte(strconv.Itoa(addr))}
	if id != 0 {
		h.ID = []byte(strconv.Itoa(id))
	}
	return h
}

// damageOK: damaging the newest readable snapshot is a fault the server can recover from only if the
// log still reaches down to the snapshot it falls back to (TrailingLogs kept them)
func (w *world) damageOK() bool {
	fb, readable, newest := w.snaps.damageNewest3(true)
	if readable == 0 {
		return false
	}
	lo, _ := w.st.InmemStore.FirstIndex()
	hi, _ := w.st.InmemStore.LastIndex()
	// ... and up to the end of the snapshot that is lost (what only that snapshot held would be gone)
	if hi == 0 || lo > fb+1 || hi < newest {
		return false
	}
	for i := lo; i <= hi; i++ {
		var l raft.Log
		if w.st.InmemStore.GetLog(i, &l) != nil {
			return false
		}
	}
	return readable >= 2
}

// apply runs one event on the real server and returns the observation
func (w *world) apply(e event) string {
	if e.kind == 'R' || e.kind == 'D' {
		w.stop()
		if e.kind == 'D' {
			w.snaps.damageNewest(false)
		}
		if !w.start() {
			return w.obs(false, "n")
		}
		return w.obs(false, "n")
	}
	if e.kind == 'S' {
		w.c.reset(-1, -1)
		w.r.VerifSetState(raft.RaftState(e.role))
		if e.leader != 0 {
			w.r.VerifSetLeader(raft.ServerAddress(strconv.Itoa(e.leader)), raft.ServerID(strconv.Itoa(e.leaderID)))
		}
		return w.obs(false, "n")
	}
	if e.kind == 'G' { // one pass of the candidate loop against scripted peers
		w.c.reset(e.failAt, -1)
		w.trans.mu.Lock()
		w.trans.script = map[int]peerResp{}
		for _, r := range e.resps {
			w.trans.script[r.id] = r
		}
		w.trans.sent = nil
		w.trans.mu.Unlock()
		panicked := func() (p bool) {
			defer func() {
				if x := recover(); x != nil {
					p = true
				}
			}()
			w.r.VerifRunCandidate()
			return false
		}()
		if panicked {
			ops := w.c.ops
			w.stop()
			_ = w.start()
			w.c.ops = ops
			return w.obs(true, "n")
		}
		time.Sleep(50 * time.Millisecond) // stragglers among the requests
		synctest.Wait()
		w.trans.mu.Lock()
		sent := w.trans.sent
		w.trans.script = nil
		w.trans.mu.Unlock()
		var pre, vote []int
		term, li, lt, tr, consistent := uint64(0), uint64(0), uint64(0), false, true
		for k, q := range sent {
			if q.kind == 'P' {
				pre = append(pre, q.peer)
			} else {
				vote = append(vote, q.peer)
				tr = tr || q.transfer
			}
			if k == 0 {
				term, li, lt = q.term, q.lastIdx, q.lastTerm
			} else if q.term != term || q.lastIdx != li || q.lastTerm != lt {
				consistent = false
			}
		}
		sort.Ints(pre)
		sort.Ints(vote)
		if !consistent {
			term = 999999
		}
		return w.obs(false, fmt.Sprintf("c %d %s %d %s %d %d %d %d", len(pre), intsJoin(pre), len(vote), intsJoin(vote), term, li, lt, b2i(tr)))
	}
	if e.kind == 'K' { // takeSnapshot, as the snapshot goroutine runs it
		w.c.reset(e.failAt, e.crashAt)
		_, err := w.r.VerifTakeSnapshot()
		if errors.Is(err, raft.ErrVerifPanicked) {
			ops := w.c.ops
			w.stop()
			_ = w.start()
			w.c.ops = ops
			return w.obs(true, "n")
		}
		synctest.Wait()
		return w.obs(false, fmt.Sprintf("s %d", b2i(err == nil)))
	}
	rpc, ch := e.rpc()
	w.c.reset(e.failAt, e.crashAt)
	w.lastResp, w.lastErr = nil, nil
	panicked := func() (p bool) {
		defer func() {
			if x := recover(); x != nil {
				p = true
			}
		}()
		w.r.VerifProcessRPC(rpc)
		return false
	}()
	if panicked {
		// the process died: whatever was written stays; a new process starts on the stores
		ops := w.c.ops
		w.stop()
		ok := w.start()
		w.c.ops = ops
		_ = ok
		return w.obs(true, "n")
	}
	synctest.Wait()
	resp := "n"
	select {
	case rr := <-ch:
		w.lastResp, w.lastErr = rr.Response, rr.Error
		resp = respTok(rr)
	default:
	}
	return w.obs(false, resp)
}

// rpc builds the request of an RPC event
func (e event) rpc() (raft.RPC, chan raft.RPCResponse) {
	ch := make(chan raft.RPCResponse, 1)
	rpc := raft.RPC{RespChan: ch}
	switch e.kind {
	case 'V':
		rpc.Command = &raft.RequestVoteRequest{RPCHeader: hdr(e.peerID, e.peer), Term: uint64(e.term), LastLogIndex: uint64(e.lastIdx),
			LastLogTerm: uint64(e.lastTerm), LeadershipTransfer: e.transfer}
	case 'P':
		rpc.Command = &raft.RequestPreVoteRequest{RPCHeader: hdr(e.peerID, e.peer), Term: uint64(e.term), LastLogIndex: uint64(e.lastIdx), LastLogTerm: uint64(e.lastTerm)}
	case 'A':
		a := &raft.AppendEntriesRequest{RPCHeader: hdr(e.peerID, e.peer), Term: uint64(e.term), PrevLogEntry: uint64(e.prevIdx),
			PrevLogTerm: uint64(e.prevTerm), LeaderCommitIndex: uint64(e.commit)}
		for _, x := range e.entries {
			a.Entries = append(a.Entries, x.log())
		}
		rpc.Command = a
	case 'I':
		data := encodeState(e.data)
		size := int64(len(data))
		if !e.sizeOk {
			// the stream ends early: the announced size is the full snapshot's, the body is cut
			// short (an empty snapshot cannot be cut: there the announcement is one byte too long)
			if len(data) > 1 {
				data = data[:len(data)-1-len(data)/3]
			} else {
				size++
			}
		}
		rpc.Command = &raft.InstallSnapshotRequest{RPCHeader: hdr(e.peerID, e.peer), SnapshotVersion: 1, Term: uint64(e.term),
			LastLogIndex: uint64(e.lastIdx), LastLogTerm: uint64(e.lastTerm), Configuration: raft.EncodeConfiguration(mkCfg(e.cfg)),
			ConfigurationIndex: uint64(e.cfgIdx), Size: size}
		rpc.Reader = bytes.NewReader(data)
	case 'T':
		rpc.Command = &raft.TimeoutNowRequest{RPCHeader: hdr(0, 0)}
	}
	return rpc, ch
}

func respTok(rr raft.RPCResponse) string {
	resp := "n"
	switch x := rr.Response.(type) {
	case *raft.RequestVoteResponse:
		resp = fmt.Sprintf("v %d %d", x.Term, b2i(x.Granted))
	case *raft.RequestPreVoteResponse:
		resp = fmt.Sprintf("p %d %d", x.Term, b2i(x.Granted))
	case *raft.AppendEntriesResponse:
		resp = fmt.Sprintf("a %d %d %d %d", x.Term, x.LastLog, b2i(x.Success), b2i(x.NoRetryBackoff))
	case *raft.InstallSnapshotResponse:
		resp = fmt.Sprintf("i %d %d %d", x.Term, b2i(x.Success), b2i(rr.Error != nil))
	case *raft.TimeoutNowResponse:
		resp = "t"
	}
	return resp
}

// ---------------------------------------------------------------------------------------------
// generators

var baseCfg = []srv{{0, 1, 11}, {0, 2, 12}, {0, 3, 13}}

type gen struct {
	rng *rand.Rand
	w   *world
	pay int
}

func (g *gen) payload() int { g.pay++; return g.pay }

// initial durable image: a plausible history
func (g *gen) initial() (curTerm, voteTerm int, candPresent bool, cand int, log []entry, staged int, snaps []snapRec) {
	r := g.rng
	n := r.Intn(9)
	term := 1
	cfg := baseCfg
	if n > 0 {
		log = append(log, entry{idx: 1, term: 1, kind: 5, cfg: baseCfg})
	}
	var fsmState []int
	type hist struct {
		cfg    []srv
		cfgIdx int
		state  []int
	}
	hs := []hist{{nil, 0, nil}, {baseCfg, 1, nil}}
	cfgIdx := 1
	for i := 2; i <= n; i++ {
		if r.Intn(3) == 0 {
			term += 1 + r.Intn(2)
		}
		k := 0
		switch x := r.Intn(10); {
		case x < 6:
			k = 0
		case x < 8:
			k = 1
		case x < 9:
			k = 4
		default:
			k = 5
		}
		e := entry{idx: i, term: term, kind: k}
		if k == 5 {
			c2 := append(append([]srv{}, cfg...), srv{1, 4, 14})
			if len(cfg) > 3 {
				c2 = baseCfg
			}
			e.cfg, cfg, cfgIdx = c2, c2, i
		} else {
			e.data = g.payload()
			if k == 0 {
				fsmState = append(append([]int{}, fsmState...), e.data)
			}
		}
		log = append(log, e)
		hs = append(hs, hist{cfg, cfgIdx, fsmState})
	}
	curTerm = term + r.Intn(3)
	if n == 0 {
		curTerm = r.Intn(3)
	}
	switch r.Intn(5) {
	case 0: // no vote
	case 1: // whole vote in the current term
		voteTerm, candPresent, cand = curTerm, true, 12+r.Intn(2)
	case 2: // half-written: term written, candidate of an older vote (or none)
		voteTerm = curTerm
		if r.Intn(2) == 0 {
			candPresent, cand = true, 12+r.Intn(2)
		}
	default: // older vote
		if curTerm > 0 {
			voteTerm, candPresent, cand = r.Intn(curTerm+1), true, 12+r.Intn(2)
		}
	}
	if n >= 2 && r.Intn(3) == 0 {
		si := 1 + r.Intn(n)
		snaps = append(snaps, snapRec{idx: si, term: log[si-1].term, cfgIdx: hs[si].cfgIdx, cfg: hs[si].cfg, data: hs[si].state})
		so := 0
		if si >= 2 && r.Intn(2) == 0 { // an older snapshot is retained as well
			so = 1 + r.Intn(si-1)
			snaps = append(snaps, snapRec{idx: so, term: log[so-1].term, cfgIdx: hs[so].cfgIdx, cfg: hs[so].cfg, data: hs[so].state})
		}
		if r.Intn(2) == 0 { // compacted prefix (mostly not beyond the older snapshot)
			cut := 1 + r.Intn(si)
			if so > 0 && r.Intn(4) != 0 {
				cut = 1 + r.Intn(so)
			}
			log = log[cut:]
		}
	}
	if n > 0 {
		staged = r.Intn(n + 1)
	}
	return
}

func (g *gen) termAt(idx int) (int, bool) {
	var l raft.Log
	if g.w.st.InmemStore.GetLog(uint64(idx), &l) == nil {
		return int(l.Term), true
	}
	d := g.w.r.VerifDump()
	if uint64(idx) == d.LastSnapshotIndex {
		return int(d.LastSnapshotTerm), true
	}
	return 0, false
}

func (g *gen) event() event {
	r := g.rng
	d := g.w.r.VerifDump()
	cur := int(d.Term)
	last := int(d.LastLogIndex)
	if int(d.LastSnapshotIndex) > last {
		last = int(d.LastSnapshotIndex)
	}
	lastTerm := int(d.LastLogTerm)
	if d.LastSnapshotIndex > d.LastLogIndex {
		lastTerm = int(d.LastSnapshotTerm)
	}
	pickTerm := func() int {
		switch x := r.Intn(10); {
		case x < 5:
			return cur
		case x < 8:
			return cur + 1
		case x < 9:
			if cur > 0 {
				return cur - 1
			}
			return cur
		default:
			return cur + 2
		}
	}
	fc := func(e *event, maxW int) {
		e.failAt, e.crashAt = -1, -1
		switch r.Intn(8) {
		case 0:
			e.failAt = r.Intn(maxW)
		case 1:
			e.crashAt = r.Intn(maxW)
		}
	}
	x := r.Intn(100)
	switch {
	case x < 40: // AppendEntries
		e := event{kind: 'A', peerID: 2 + r.Intn(2), term: pickTerm()}
		e.peer = 10 + e.peerID
		switch y := r.Intn(10); {
		case y < 5:
			e.prevIdx = last
		case y < 7:
			e.prevIdx = last - 1 - r.Intn(2)
		case y < 8:
			e.prevIdx = 0
		case y < 9:
			e.prevIdx = last + 1
		default:
			e.prevIdx = r.Intn(last + 2)
		}
		if e.prevIdx < 0 {
			e.prevIdx = 0
		}
		if t, ok := g.termAt(e.prevIdx); ok && r.Intn(6) != 0 {
			e.prevTerm = t
		} else {
			e.prevTerm = 1 + r.Intn(cur+1)
		}
		nent := []int{0, 0, 1, 1, 2, 3, 4}[r.Intn(7)]
		t := e.prevTerm
		for i := 1; i <= nent; i++ {
			idx := e.prevIdx + i
			var en entry
			var l raft.Log
			if g.w.st.InmemStore.GetLog(uint64(idx), &l) == nil && r.Intn(3) != 0 {
				en = fromLog(&l) // duplicate of what is stored
				if en.term < t {
					en.term = t
				}
			} else {
				if r.Intn(3) == 0 && t < e.term {
					t = t + 1 + r.Intn(e.term-t)
				}
				k := []int{0, 0, 0, 1, 4, 5}[r.Intn(6)]
				en = entry{idx: idx, term: t, kind: k}
				if k == 5 {
					en.cfg = [][]srv{baseCfg, append(append([]srv{}, baseCfg...), srv{1, 4, 14}), {{0, 1, 11}, {0, 2, 12}, {1, 3, 13}}, {{0, 2, 12}, {0, 3, 13}}}[r.Intn(4)]
				} else {
					en.data = g.payload()
				}
			}
			t = en.term
			if t == 0 {
				t, en.term = 1, 1
			}
			e.entries = append(e.entries, en)
		}
		switch y := r.Intn(6); {
		case y < 1:
			e.commit = 0
		case y < 4:
			e.commit = r.Intn(last + nent + 2)
		default:
			e.commit = e.prevIdx + nent
		}
		fc(&e, 4)
		return e
	case x < 65: // RequestVote
		e := event{kind: 'V', peerID: 2 + r.Intn(3), term: pickTerm(), transfer: r.Intn(8) == 0}
		e.peer = 10 + e.peerID
		if r.Intn(12) == 0 {
			e.peerID = 0 // request without ID
		}
		if r.Intn(15) == 0 {
			e.peerID = 7 // not in the configuration
			e.peer = 17
		}
		switch y := r.Intn(6); {
		case y < 3:
			e.lastIdx, e.lastTerm = last, lastTerm
		case y < 4:
			e.lastIdx, e.lastTerm = last+1+r.Intn(2), lastTerm+r.Intn(2)
		case y < 5:
			e.lastIdx, e.lastTerm = last-1, lastTerm
			if e.lastIdx < 0 {
				e.lastIdx = 0
			}
		default:
			e.lastIdx, e.lastTerm = r.Intn(last+3), r.Intn(lastTerm+2)
		}
		fc(&e, 3)
		return e
	case x < 73: // PreVote
		e := event{kind: 'P', peerID: 2 + r.Intn(3), term: pickTerm(), failAt: -1, crashAt: -1}
		e.peer = 10 + e.peerID
		if r.Intn(3) == 0 {
			e.lastIdx, e.lastTerm = r.Intn(last+3), r.Intn(lastTerm+2)
		} else {
			e.lastIdx, e.lastTerm = last, lastTerm
		}
		return e
	case x < 82: // InstallSnapshot
		e := event{kind: 'I', peerID: 2 + r.Intn(2), term: pickTerm(), sizeOk: r.Intn(10) != 0}
		e.peer = 10 + e.peerID
		switch y := r.Intn(4); {
		case y < 2:
			e.lastIdx = last + 1 + r.Intn(4)
		case y < 3:
			e.lastIdx = 1 + r.Intn(last+1)
		default:
			e.lastIdx = last
		}
		if e.lastIdx == 0 {
			e.lastIdx = 1
		}
		if t, ok := g.termAt(e.lastIdx); ok && r.Intn(4) != 0 {
			e.lastTerm = t
		} else {
			e.lastTerm = 1 + r.Intn(e.term+1)
		}
		e.cfg, e.cfgIdx = baseCfg, 1
		if r.Intn(3) == 0 {
			e.cfg, e.cfgIdx = append(append([]srv{}, baseCfg...), srv{1, 4, 14}), 1+r.Intn(e.lastIdx)
		}
		for i := 0; i < e.lastIdx && i < 6; i++ {
			if r.Intn(3) != 0 {
				e.data = append(e.data, 1000+g.payload())
			}
		}
		fc(&e, 3)
		if e.failAt > 0 {
			e.failAt = -1 // later write errors of this handler are only logged; the model does not follow them
		}
		return e
	case x < 84:
		return event{kind: 'R', failAt: -1, crashAt: -1}
	case x < 88:
		e := event{kind: 'K', failAt: -1, crashAt: -1}
		switch r.Intn(8) {
		case 0:
			e.failAt = r.Intn(2)
		case 1:
			e.crashAt = r.Intn(3)
		}
		return e
	case x < 92:
		return event{kind: 'T', failAt: -1, crashAt: -1}
	default:
		e := event{kind: 'S', role: r.Intn(3), failAt: -1, crashAt: -1}
		if e.role == 0 && r.Intn(2) == 0 {
			e.leaderID = 2 + r.Intn(2)
			e.leader = 10 + e.leaderID
		}
		return e
	}
}

// populate fills the stores directly (not counted as events)
func (w *world) populate(curTerm, voteTerm int, candPresent bool, cand int, log []entry, staged int, snaps []snapRec) {
	w.c.reset(-1, -1)
	if curTerm > 0 {
		_ = w.st.InmemStore.SetUint64([]byte("CurrentTerm"), uint64(curTerm))
	}
	if voteTerm > 0 {
		_ = w.st.InmemStore.SetUint64([]byte("LastVoteTerm"), uint64(voteTerm))
	}
	if candPresent {
		_ = w.st.InmemStore.Set([]byte("LastVoteCand"), []byte(strconv.Itoa(cand)))
	}
	var ls []*raft.Log
	for _, e := range log {
		ls = append(ls, e.log())
	}
	if len(ls) > 0 {
		_ = w.st.InmemStore.StoreLogs(ls)
	}
	w.st.staged = uint64(staged)
	for _, s := range snaps {
		sk, _ := w.snaps.Create(1, uint64(s.idx), uint64(s.term), mkCfg(s.cfg), uint64(s.cfgIdx), nil)
		_, _ = sk.Write(encodeState(s.data))
		_ = sk.Close()
	}
}

func runHandlersCase(rng *rand.Rand, thorough bool, out *bufio.Writer, st *stats, seen map[string]bool) {
	mono := rng.Intn(3) == 0
	restoreC := rng.Intn(3) == 0
	trailing := 1 + rng.Intn(3)
	w := newWorld(mono, restoreC, trailing, 3)
	w.noPV = rng.Intn(4) == 0
	g := &gen{rng: rng, w: w}
	curTerm, voteTerm, candPresent, cand, log, staged, snaps := g.initial()
	w.populate(curTerm, voteTerm, candPresent, cand, log, staged, snaps)
	initDur := w.durableTok()
	var evs []string
	var obs []string
	w.start()
	obs = append(obs, w.obs(false, "n"))
	nev := 3 + rng.Intn(10)
	if thorough {
		nev = 5 + rng.Intn(30)
	}
	tags := map[string]bool{}
	for i := 0; i < nev && !w.dead; i++ {
		e := g.event()
		if rng.Intn(9) == 0 && !w.dead {
			// the candidate loop: make the server a candidate, then let it campaign against scripted peers
			d := w.r.VerifDump()
			if d.State != raft.Candidate {
				e = event{kind: 'S', role: 1, failAt: -1, crashAt: -1}
			} else {
				e = event{kind: 'G', failAt: -1, crashAt: -1}
				t1 := int(d.Term) + 1
				for _, sv := range unCfg(d.Latest) {
					if sv.id == 1 {
						continue
					}
					r := peerResp{id: sv.id, pvTerm: t1, vTerm: t1, pvGranted: rng.Intn(5) < 3, vGranted: rng.Intn(5) < 3}
					switch rng.Intn(10) {
					case 0:
						r.pvErr = 1
					case 1:
						r.pvErr = 2
					case 2:
						r.pvTerm = t1 + 1 + rng.Intn(2)
					case 3:
						r.pvTerm = t1 - 1
					}
					switch rng.Intn(10) {
					case 0:
						r.vErr = true
					case 1:
						r.vTerm = t1 + 1 + rng.Intn(2)
					}
					if rng.Intn(8) != 0 { // sometimes a peer does not answer at all (no script: transport error)
						e.resps = append(e.resps, r)
					}
				}
				if rng.Intn(5) == 0 { // a StableStore write of this pass fails (0 the term, 1 / 2 the own vote)
					e.failAt = rng.Intn(3)
				}
			}
		}
		if e.kind == 'R' && rng.Intn(2) == 0 && (w.damageOK() || rng.Intn(40) == 0) {
			e.kind = 'D' // the newest readable snapshot is damaged, then the restart
		}
		evs = append(evs, e.tok())
		o := w.apply(e)
		obs = append(obs, o)
		f := strings.Fields(o)
		tag := string(e.kind)
		if len(f) > 2 && f[0] == "O" {
			switch f[2] {
			case "v", "p":
				tag += ":granted=" + f[4]
			case "a":
				tag += ":success=" + f[5]
			case "i":
				tag += ":success=" + f[4]
			}
			if f[1] == "1" {
				tag += ":crashed"
			}
		}
		if e.failAt >= 0 {
			tag += ":fail-armed"
		}
		tags[tag] = true
		st.Hist[tag]++
	}
	w.stop()
	caseLine := fmt.Sprintf("CF %d %d %d %d %d DU %s EV %d %s", b2i(mono), b2i(restoreC), trailing, 3, b2i(w.noPV), initDur, len(evs), strings.Join(evs, " "))
	caseLine = strings.Join(strings.Fields(caseLine), " ")
	implLine := fmt.Sprintf("%d %s", len(obs), strings.Join(obs, " "))
	fmt.Fprintln(out, caseLine)
	fmt.Fprintln(out, implLine)
	st.Cases++
	nontrivial := false
	for t := range tags {
		if strings.Contains(t, "granted=1") || strings.Contains(t, "success=1") {
			nontrivial = true
		}
	}
	if nontrivial && !seen[caseLine] {
		seen[caseLine] = true
		st.Distinct++
		if len(st.Samples) < 3 {
			smp := caseLine + " => " + implLine
			if len(smp) > 600 {
				smp = smp[:600] + " ..."
			}
			st.Samples = append(st.Samples, smp)
		}
	}
}

func TestEngine(t *testing.T) {
	if *flagEngine == "" {
		t.Skip("no engine")
	}
	fh, err := os.Create(*flagOut)
	if err != nil {
		t.Fatal(err)
	}
	out := bufio.NewWriterSize(fh, 1<<20)
	st := &stats{Engine: *flagEngine, Hist: map[string]int{}}
	rng := rand.New(rand.NewSource(*flagSeed))
	synctest.Test(t, func(t *testing.T) {
		switch *flagEngine {
		case "handlers":
			st.Rule = "random: a plausible durable image (0..8 entries incl. configuration entries, optional snapshot + compacted prefix, whole / half-written / old vote record, plain / monotonic / commit-tracking store) then 3..12 [thorough: 5..34] events on the real server: AppendEntries 40% (prev at/near the end, right term 5/6, duplicates/conflicts/new entries), RequestVote 25%, RequestPreVote 8%, InstallSnapshot 9%, restart 5%, local snapshot 4%, TimeoutNow 4%, role change 8%, and 1/9 of the events drive one pass of the real candidate loop against scripted peers (pre-vote / vote answers granted or refused, newer terms, transport errors, peers without pre-vote support, silent peers; pre-vote disabled in 1/4 of the cases); 1/8 of the RPCs with a store write failing and 1/8 with a crash at a write ordinal; non-trivial = some request was granted / succeeded"
			seen := map[string]bool{}
			for k := 0; k < *flagN; k++ {
				runHandlersCase(rng, *flagThorough, out, st, seen)
			}
		case "cluster":
			st.Rule = "3 or 5 real servers with their full run loops in one synctest bubble (virtual time; Heartbeat/Election/Lease 50ms, TrailingLogs 3, MaxAppendEntries 4), every RPC through a fault-injecting proxy (delay up to 40ms, drop up to 20%, duplicated AppendEntries up to 30%, directed link cuts, isolation); 40..120 [thorough: 100..400] steps of: client Apply 45% (3/4 at the leader), Barrier 5%, VerifyLeader 5%, partition 8%, heal 7%, network weather 5%, crash/restart 5%, user snapshot 5%, leadership transfer 3%, follower disk fault 3%, demote/promote 3%; then heal + restart all, 15 s quiet, final writes, dumps; 3 of 8 cases are litmus schedules instead (VerifyLeader x4, shutdown with calls part-way in, a fourth server joining a compacted cluster); flavours: protocol version 2 (1/6), commit-tracking stores with RestoreCommittedLogs (1/4), slow FSMs (1/3), batching FSM per lifetime (1/2), monotonic stores (1/3); every case counts as non-trivial (each elects a leader and commits)"
			for k := 0; k < *flagN; k++ {
				if *flagOnly >= 0 && k != *flagOnly {
					continue
				}
				// one PRNG per case, so that a case replays alone
				runClusterCase(rand.New(rand.NewSource(*flagSeed*1000003+int64(k))), *flagThorough, out, st, k)
			}
			out.Flush()
			fh.Close()
			js, _ := json.MarshalIndent(st, "", " ")
			os.WriteFile(*flagOut+".stats.json", js, 0o644)
			os.Exit(17) // goroutines of the servers' proxies are still parked: a bubble cannot end cleanly
		case "lease", "restore", "verify":
			if *flagEngine == "verify" {
				st.Rule = "the VerifyLeader litmus schedules only (leader 1 has a slow clock): non-voters reachable only (5 servers) / a heartbeat answer held in the network across an election (3) / an uncommitted demotion (4) / the answer to an InstallSnapshot held across an election (3); VerifyLeader on the old leader while another server already leads a higher term"
			} else if *flagEngine == "lease" {
				st.Rule = "3 or 5 real servers (optionally one non-voter), fault-free stretch of 2..22 virtual seconds with writes (leadership must not change), then the leader is cut off from every other voter at a recorded instant (a non-voter stays connected) and must give up leadership within 2 x LeaderLeaseTimeout and refuse writes afterwards"
			} else {
				st.Rule = "3 real servers, gap-tolerant or monotonic log stores; some writes; optionally one follower cut off; 0..3 writes in flight; user Restore on the leader with snapshot index 1 / last / last+1..5 / last/2 and 0..4 payloads; more writes; heal; 15 s quiet; final writes and dumps; one non-racing case in four with a leadership transfer (to a cut-off follower, half the time also an entry behind) in progress when Restore is called"
			}
			for k := 0; k < *flagN; k++ {
				if *flagOnly >= 0 && k != *flagOnly {
					continue
				}
				r := rand.New(rand.NewSource(*flagSeed*1000003 + int64(k)))
				if *flagEngine == "verify" {
					runVerifyLitmus(r, out, st, k)
				} else if *flagEngine == "lease" {
					runLeaseCase(r, out, st, k)
				} else {
					runRestoreCase(r, out, st, k)
				}
			}
			out.Flush()
			fh.Close()
			js, _ := json.MarshalIndent(st, "", " ")
			os.WriteFile(*flagOut+".stats.json", js, 0o644)
			os.Exit(17)
		case "universe":
			st.Rule = "one real server (a voter) in a Raft-consistent universe: the harness keeps a committed history H and one log per elected term (each holding H as of its election) and produces the AppendEntries / InstallSnapshot / RequestVote / RequestPreVote messages such leaders and candidates could send (stale nextIndex, stale commit index, old terms included); every message stays in a pool and is delivered late, twice or out of order; 1/10 of the deliveries with a failing store write, 1/10 with a crash at a write ordinal, restarts; the initial image is a prefix of some leader's log, optionally snapshotted and compacted; non-trivial = some request was granted / succeeded"
			seen := map[string]bool{}
			for k := 0; k < *flagN; k++ {
				runUniverseCase(rng, *flagThorough, out, st, seen)
			}
		case "catchup":
			st.Rule = "two real servers: a leader image (0..12 [thorough: 0..21] entries incl. configuration entries, optional snapshots and compacted prefix, MaxAppendEntries 1/2/3/64) and a follower image that shares a prefix of it and then is short, equal, or continues with 1..3 entries of its own (lower or higher terms), optionally snapshotted/compacted, gap-tolerant or monotonic stores, follower term below / equal / above the leader's (1/10); the leader's real replicateTo runs from nextIndex (last+1 in 3/5, else anywhere in 1..last+1) with every request handed to the follower's real handler; 1/5 with a failing or crashing store write on the follower during one of the first exchanges, 1/12 with a transport that refuses after 0..3 requests; 1/3 of the cases in pipeline mode: the real pipelineReplicate (sender + decoder goroutines) against a pipeline whose sends only queue the request, driven by 1..8 operations - let the sender send once / deliver the oldest queued request to the follower and hand the answer to the decoder - so that several requests are in flight, nextIndex starting where a catch-up would have left it (1/2) or anywhere; non-trivial = some AppendEntries succeeded"
			seen := map[string]bool{}
			for k := 0; k < *flagN; k++ {
				runCatchupCase(rng, *flagThorough, out, st, seen)
			}
		case "follower":
			st.Rule = "one real server running its real follower loop (runFollower) on a generated image: no configuration at all, sole voter, 2 / 3 / 4 servers, this server a voter, a non-voter, staging or not listed, optionally a later configuration entry that gives or takes its vote; 3..10 [thorough: 5..20] stimuli: virtual time advanced past the heartbeat timeout (the loop's own timer fires), a little time after a contact, requests of other servers through the loop (AppendEntries / RequestVote / RequestPreVote / InstallSnapshot as in the handlers engine), API calls that need a leader (Apply, Barrier, membership changes, VerifyLeader); once the loop has made the server a candidate, up to two passes of the real candidate loop against scripted peers; every case is non-trivial"
			seen := map[string]bool{}
			for k := 0; k < *flagN; k++ {
				runFollowerCase(rng, *flagThorough, out, st, seen)
			}
		case "leader":
			st.Rule = "one real server made leader (by decree or through a won campaign against scripted peers) on a generated image (1, 2, 3, 3+non-voter or 5 voters; 1..6 entries, optional snapshot / compacted prefix; gap-tolerant or monotonic store, optional commit tracking; MaxAppendEntries 1 / 2 / 64), its real runLeader / leaderLoop running with every replication and heartbeat request parked in the harness transport; 4..13 [thorough: 6..29] stimuli: Apply (also with a failing StoreLogs), Barrier, bursts of 2..6 calls queued while the loop is busy, AddVoter / AddNonvoter / DemoteVoter / RemoveServer (own id included, stale prevIndex, calls waiting for the gate), VerifyLeader, a follower acknowledging / refusing / answering with a newer term, heartbeats answered yes / no / not at all, requests of other servers reaching the loop; after the leadership ends up to two more requests; every case is non-trivial (the no-op is dispatched); one case in four with a slow NotifyCh reader: the channel is unbuffered and read at observation points only, LeaderCh being sampled whenever a notification is waiting"
			seen := map[string]bool{}
			for k := 0; k < *flagN; k++ {
				runLeaderCase(rng, *flagThorough, out, st, seen)
			}
		default:
			t.Fatalf("unknown engine %s", *flagEngine)
		}
	})
	out.Flush()
	fh.Close()
	js, _ := json.MarshalIndent(st, "", " ")
	os.WriteFile(*flagOut+".stats.json", js, 0o644)
}
