package h2

// Engine "catchup": the leader's real replicateTo against a real follower.  Two instances share
// nothing but the leader's transport, which hands every AppendEntries / InstallSnapshot it is given
// to the follower's RPC handler (through the same event path as the handlers engine) and returns
// the follower's answer.  The model (SV.replicateTo) composes its leader-side loop with the handler
// model of the follower; the driver compares every request, every follower observation and the
// replication state at the end, and evaluates the catch-up clauses of C12 / C04 on the
// implementation's own output.

import (
	"bufio"
	"errors"
	"fmt"
	"io"
	"math/rand"
	"strconv"
	"strings"
	"sync"
	"testing/synctest"
	"time"

	"github.com/hashicorp/raft"
)

type replTrans struct {
	*nullTrans
	f      *world
	fuel   int
	count  int
	faults map[int][2]int
	trace  []string
	pipe   *replPipe // pipeline mode only
}

// replPipe is the transport's pipeline in pipeline mode: a send only queues the request; the
// engine's root goroutine delivers queued requests to the follower one at a time (so that several
// can be in flight, as on a real connection) and hands the answer to the leader's decoder.  A
// delivery that gets no answer breaks the pipe: the next send fails, as on a closed connection.
type replPipe struct {
	t      *replTrans
	ch     chan raft.AppendFuture
	mu     sync.Mutex
	closed bool
	flight []*replFut
	sent   int
}

type replFut struct {
	req   *raft.AppendEntriesRequest
	resp  *raft.AppendEntriesResponse
	start time.Time
}

func (f *replFut) Error() error                          { return nil }
func (f *replFut) Start() time.Time                      { return f.start }
func (f *replFut) Request() *raft.AppendEntriesRequest   { return f.req }
func (f *replFut) Response() *raft.AppendEntriesResponse { return f.resp }

func (p *replPipe) AppendEntries(req *raft.AppendEntriesRequest, resp *raft.AppendEntriesResponse) (raft.AppendFuture, error) {
	p.mu.Lock()
	defer p.mu.Unlock()
	if p.closed || p.sent >= p.t.fuel {
		return nil, raft.ErrPipelineShutdown
	}
	p.sent++
	f := &replFut{req, resp, time.Now()}
	p.flight = append(p.flight, f)
	return f, nil
}
func (p *replPipe) Consumer() <-chan raft.AppendFuture { return p.ch }
func (p *replPipe) Close() error {
	p.mu.Lock()
	p.closed = true
	p.mu.Unlock()
	return nil
}
func (p *replPipe) inFlight() int {
	p.mu.Lock()
	defer p.mu.Unlock()
	return len(p.flight)
}

// deliverOne hands the oldest queued request to the follower (unless the pipe is closed: then it is lost)
func (p *replPipe) deliverOne() {
	p.mu.Lock()
	if len(p.flight) == 0 {
		p.mu.Unlock()
		return
	}
	f := p.flight[0]
	p.flight = p.flight[1:]
	closed := p.closed
	p.mu.Unlock()
	if closed {
		return
	}
	if err := p.t.AppendEntries("", "", f.req, f.resp); err != nil {
		_ = p.Close()
		return
	}
	p.ch <- f
}

func (t *replTrans) AppendEntriesPipeline(raft.ServerID, raft.ServerAddress) (raft.AppendPipeline, error) {
	if t.pipe == nil {
		return nil, raft.ErrPipelineReplicationNotSupported
	}
	return t.pipe, nil
}

func atoiB(b []byte) int { n, _ := strconv.Atoi(string(b)); return n }

func (t *replTrans) deliver(e event) (string, bool) {
	if t.count >= t.fuel {
		return "", false
	}
	if ft, ok := t.faults[t.count]; ok {
		e.failAt, e.crashAt = ft[0], ft[1]
		if e.kind == 'I' && e.failAt > 0 {
			e.failAt = -1 // later write errors of this handler are only logged; the model does not follow them
		}
	}
	t.count++
	if t.f.dead {
		t.trace = append(t.trace, e.tok()+" "+t.f.obs(false, "n"))
		return "", false
	}
	o := t.f.apply(e)
	t.trace = append(t.trace, e.tok()+" "+o)
	return o, true
}

func (t *replTrans) AppendEntries(_ raft.ServerID, _ raft.ServerAddress, req *raft.AppendEntriesRequest, resp *raft.AppendEntriesResponse) error {
	e := event{kind: 'A', peer: atoiB(req.RPCHeader.Addr), peerID: atoiB(req.RPCHeader.ID), term: int(req.Term), prevIdx: int(req.PrevLogEntry),
		prevTerm: int(req.PrevLogTerm), commit: int(req.LeaderCommitIndex), failAt: -1, crashAt: -1}
	for _, l := range req.Entries {
		e.entries = append(e.entries, fromLog(l))
	}
	if _, ok := t.deliver(e); !ok {
		return errors.New("unreachable")
	}
	if r, ok := t.f.lastResp.(*raft.AppendEntriesResponse); ok && t.f.lastErr == nil {
		*resp = *r
		return nil
	}
	return errors.New("no answer")
}

func (t *replTrans) InstallSnapshot(_ raft.ServerID, _ raft.ServerAddress, req *raft.InstallSnapshotRequest, resp *raft.InstallSnapshotResponse, rd io.Reader) error {
	data, _ := io.ReadAll(rd)
	e := event{kind: 'I', peer: atoiB(req.RPCHeader.Addr), peerID: atoiB(req.RPCHeader.ID), term: int(req.Term), lastIdx: int(req.LastLogIndex),
		lastTerm: int(req.LastLogTerm), cfgIdx: int(req.ConfigurationIndex), cfg: unCfg(raft.DecodeConfiguration(req.Configuration)),
		data: decodeState(data), sizeOk: req.Size == int64(len(data)), failAt: -1, crashAt: -1}
	if _, ok := t.deliver(e); !ok {
		return errors.New("unreachable")
	}
	if r, ok := t.f.lastResp.(*raft.InstallSnapshotResponse); ok && t.f.lastErr == nil {
		*resp = *r
		return nil
	}
	return errors.New("no answer")
}

type hstate struct {
	cfg    []srv
	cfgIdx int
	state  []int
}

// histOf replays a log from index 1: configuration and FSM content after each index
func histOf(log []entry) []hstate {
	hs := []hstate{{nil, 0, nil}}
	cur := hstate{}
	for _, e := range log {
		if e.kind == 5 {
			cur.cfg, cur.cfgIdx = e.cfg, e.idx
		}
		if e.kind == 0 {
			cur.state = append(append([]int{}, cur.state...), e.data)
		}
		hs = append(hs, cur)
	}
	return hs
}

func runCatchupCase(rng *rand.Rand, thorough bool, out *bufio.Writer, st *stats, seen map[string]bool) {
	pay := 0
	// the leader's full history
	n := rng.Intn(13)
	if thorough {
		n = rng.Intn(22)
	}
	var full []entry
	term := 1
	cfg := baseCfg
	for i := 1; i <= n; i++ {
		if i > 1 && rng.Intn(3) == 0 {
			term += 1 + rng.Intn(2)
		}
		e := entry{idx: i, term: term}
		switch x := rng.Intn(10); {
		case i == 1 || x == 9:
			e.kind = 5
			if i > 1 {
				if len(cfg) > 3 {
					cfg = baseCfg
				} else {
					cfg = append(append([]srv{}, cfg...), srv{1, 4, 14})
				}
			}
			e.cfg = cfg
		case x < 6:
			e.kind = 0
		case x < 8:
			e.kind = 1
		default:
			e.kind = 4
		}
		if e.kind != 5 {
			pay++
			e.data = pay
		}
		full = append(full, e)
	}
	termAt := func(i int) int {
		if i == 0 {
			return 0
		}
		return full[i-1].term
	}
	// the follower's history: a prefix of the leader's, then possibly entries of its own
	k := n
	if rng.Intn(4) != 0 {
		k = rng.Intn(n + 1)
	}
	fol := append([]entry{}, full[:k]...)
	maxTerm := termAt(n)
	if m := rng.Intn(4); m > 0 && rng.Intn(2) == 0 {
		t := termAt(k)
		if t == 0 {
			t = 1
		}
		t += rng.Intn(3)
		for j := 1; j <= m; j++ {
			if j > 1 && rng.Intn(3) == 0 {
				t++
			}
			if k+j <= n && t == termAt(k+j) { // log matching: same index and term would be the same entry
				t++
			}
			pay++
			kind := 0
			if k+j == 1 { // a log starts with its bootstrap configuration
				fol = append(fol, entry{idx: 1, term: t, kind: 5, cfg: baseCfg})
				continue
			}
			fol = append(fol, entry{idx: k + j, term: t, kind: kind, data: 1000 + pay})
		}
		if t > maxTerm {
			maxTerm = t
		}
	}
	lCur := maxTerm + 1 + rng.Intn(2)
	if n == 0 && len(fol) == 0 {
		lCur = rng.Intn(3)
	}
	fCur := lCur
	folMax := 0
	if len(fol) > 0 {
		folMax = fol[len(fol)-1].term
	}
	switch x := rng.Intn(10); {
	case x < 5 && lCur > folMax:
		fCur = folMax + rng.Intn(lCur-folMax+1)
	case x == 9:
		fCur = lCur + 1 + rng.Intn(2)
	}
	image := func(log []entry, upto int) (kept []entry, snaps []snapRec) {
		hs := histOf(log)
		kept = log
		if upto >= 1 && rng.Intn(2) == 0 {
			si := 1 + rng.Intn(upto)
			snaps = append(snaps, snapRec{idx: si, term: log[si-1].term, cfgIdx: hs[si].cfgIdx, cfg: hs[si].cfg, data: hs[si].state})
			so := 0
			if si >= 2 && rng.Intn(3) == 0 {
				so = 1 + rng.Intn(si-1)
				snaps = append(snaps, snapRec{idx: so, term: log[so-1].term, cfgIdx: hs[so].cfgIdx, cfg: hs[so].cfg, data: hs[so].state})
			}
			if rng.Intn(3) != 0 { // compacted prefix
				cut := rng.Intn(si + 1)
				kept = log[cut:]
			}
		}
		return
	}
	lLog, lSnaps := image(full, n)
	fLog, fSnaps := image(fol, k) // a follower's snapshot covers committed entries only: shared ones

	maxAEs := []int{1, 2, 3, 64}
	L := newWorld(rng.Intn(3) == 0, false, 1+rng.Intn(3), maxAEs[rng.Intn(len(maxAEs))])
	F := newWorld(rng.Intn(3) == 0, rng.Intn(4) == 0, 1+rng.Intn(3), 3)
	lStaged, fStaged := 0, 0
	if k > 0 {
		fStaged = rng.Intn(k + 1)
	}
	L.populate(lCur, 0, false, 0, lLog, lStaged, lSnaps)
	F.populate(fCur, 0, false, 0, fLog, fStaged, fSnaps)
	lDur, fDur := L.durableTok(), F.durableTok()

	next := n + 1
	if rng.Intn(5) < 2 {
		next = 1 + rng.Intn(n+1)
	}
	last := n
	if n > 0 && rng.Intn(6) == 0 {
		last = rng.Intn(n + 1)
	}
	fuel := 60
	if rng.Intn(12) == 0 {
		fuel = rng.Intn(4)
	}
	faults := map[int][2]int{}
	var ftTok []string
	if rng.Intn(5) == 0 {
		ex := rng.Intn(4)
		ft := [2]int{-1, -1}
		ft[rng.Intn(2)] = rng.Intn(4)
		faults[ex] = ft
		ftTok = append(ftTok, fmt.Sprintf("%d %d %d", ex, ft[0]+1, ft[1]+1))
	}
	tr := &replTrans{f: F, fuel: fuel, faults: faults}
	L.wrapTrans = func(nt *nullTrans) raft.Transport { tr.nullTrans = nt; return tr }

	var lObs, fObs string
	L.start()
	lObs = L.obs(false, "n")
	F.start()
	fObs = F.obs(false, "n")
	end := "E 0 0 0 0 0 0"
	// pipeline mode: pipelineReplicate instead of replicateTo, with sends (0) and deliveries (1)
	// in an order of the generator's choosing; whatever is still in flight is delivered at the end
	var ops []int
	pipeMode := rng.Intn(3) == 0
	if pipeMode {
		last = n
		if rng.Intn(2) == 0 {
			next = k + 1 // where a catch-up would have left it
		}
		for i, m := 0, 1+rng.Intn(8); i < m; i++ {
			ops = append(ops, b2i(rng.Intn(5) < 2))
		}
		tr.pipe = &replPipe{t: tr, ch: make(chan raft.AppendFuture, 64)}
	}
	peer := raft.Server{Suffrage: raft.Voter, ID: "2", Address: "12"}
	if !L.dead && !F.dead && !pipeMode {
		res := L.r.VerifReplicateTo(peer, uint64(next), uint64(last))
		end = fmt.Sprintf("E %d %d %d %d %d %d", res.NextIndex, res.MatchIndex, res.Failures, b2i(res.AllowPipeline), b2i(res.StepDown), b2i(res.ShouldStop))
	}
	if !L.dead && !F.dead && pipeMode {
		pl := L.r.VerifStartPipeline(peer, uint64(next))
		synctest.Wait()
		for _, op := range ops {
			if op == 0 {
				pl.Trigger()
			} else {
				tr.pipe.deliverOne()
			}
			synctest.Wait()
		}
		for tr.pipe.inFlight() > 0 {
			tr.pipe.deliverOne()
			synctest.Wait()
		}
		over := !pl.Running()
		res := pl.Stop()
		end = fmt.Sprintf("E %d %d %d %d %d %d", res.NextIndex, res.MatchIndex, res.Failures, b2i(res.AllowPipeline), b2i(res.StepDown), b2i(over))
	}
	L.stop()
	F.stop()

	caseLine := fmt.Sprintf("CU LCF %d %d %d %d %d LDU %s FCF %d %d %d %d %d FDU %s NX %d %d FU %d FT %d %s PL %d %d %s",
		b2i(L.mono), b2i(L.restoreC), L.trailing, L.maxAE, 0, lDur, b2i(F.mono), b2i(F.restoreC), F.trailing, F.maxAE, 0, fDur,
		next, last, fuel, len(ftTok), strings.Join(ftTok, " "), b2i(pipeMode), len(ops), intsJoin(ops))
	caseLine = strings.Join(strings.Fields(caseLine), " ")
	implLine := strings.Join(strings.Fields(fmt.Sprintf("%s %s T %d %s %s", lObs, fObs, len(tr.trace), strings.Join(tr.trace, " "), end)), " ")
	fmt.Fprintln(out, caseLine)
	fmt.Fprintln(out, implLine)
	st.Cases++
	snapsSent, aes, okAE := 0, 0, 0
	for _, x := range tr.trace {
		f := strings.Fields(x)
		if f[0] == "I" {
			snapsSent++
		} else {
			aes++
		}
		if strings.Contains(x, " O 0 a ") {
			g := strings.Fields(x[strings.Index(x, " O 0 a ")+7:])
			if len(g) > 2 && g[2] == "1" {
				okAE++
			}
		}
	}
	switch {
	case len(tr.trace) == 0:
		st.Hist["exchanges=0"]++
	case len(tr.trace) <= 2:
		st.Hist["exchanges=1-2"]++
	case len(tr.trace) <= 6:
		st.Hist["exchanges=3-6"]++
	default:
		st.Hist["exchanges>6"]++
	}
	if snapsSent > 0 {
		st.Hist["snapshot-sent"]++
	}
	if aes > okAE {
		st.Hist["some-append-refused"]++
	}
	if len(faults) > 0 {
		st.Hist["follower-fault-armed"]++
	}
	if pipeMode {
		st.Hist["pipeline-mode"]++
		if aes > okAE {
			st.Hist["pipeline-mode,append-refused"]++
		}
		if strings.HasSuffix(end, " 1") {
			st.Hist["pipeline-mode,ended-by-itself"]++
		}
	}
	if fCur > lCur {
		st.Hist["leader-stale"]++
	}
	if len(fol) > k {
		st.Hist["follower-diverged"]++
	}
	if okAE > 0 && !seen[caseLine] {
		seen[caseLine] = true
		st.Distinct++
		if len(st.Samples) < 3 {
			smp := caseLine + " => " + implLine
			if len(smp) > 600 {
				smp = smp[:600] + " ..."
			}
			st.Samples = append(st.Samples, smp)
		}
	}
}
