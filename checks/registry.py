"""Per-property registry: the Lean module and theorems that are the proof obligations, and the
correspondence engines that tie the model to the code."""

def T(name, says, status="full"):
    return {"name": name, "says": says, "status": status}

PROPS = {}

PROPS["C05"] = {
    "lean_module": "RaftVerif.Props.C05",
    "theorems": [
        T("C05.commit_is_majority", "every commitment step: monotone; a change needs a strict voter majority at the new index, >= startIndex, and is maximal"),
        T("C05.commit_monotone", "commit index monotone over every operation sequence"),
        T("C05.model_meets_spec", "the executable Spec evaluated on the implementation is met by the model"),
        T("C05.only_voters_tracked_setConfig", "after setConfiguration exactly the voters are tracked"),
        T("C05.only_voters_tracked_match", "match never changes the tracked set"),
    ],
    "engines": [
        {"engine": "commitment", "bin": "h1", "quick": ["-n", "20000"], "thorough": ["-n", "400000"]},
    ],
    "assumptions": ["voter ids unique (C07 next_config_wellformed)", "uint64 modelled as Nat (indexes far below 2^64)"],
}

HOOK_COMMITS = ["dfecdf5"]
