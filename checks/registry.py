"""Per-property registry: the Lean module and theorems that are the proof obligations, and the
correspondence engines that tie the model to the code."""

def T(name, says, status="full"):
    return {"name": name, "says": says, "status": status}

PROPS = {}

PROPS["C05"] = {
    "lean_module": "RaftVerif.Props.C05",
    "theorems": [
        T("C05.commit_is_majority", "every commitment step: monotone; a change needs a strict voter majority at the new index, >= startIndex, and is maximal"),
        T("C05.commit_monotone", "commit index monotone over every operation sequence"),
        T("C05.model_meets_spec", "the executable Spec evaluated on the implementation is met by the model"),
        T("C05.only_voters_tracked_setConfig", "after setConfiguration exactly the voters are tracked"),
        T("C05.only_voters_tracked_match", "match never changes the tracked set"),
    ],
    "engines": [
        {"engine": "commitment", "bin": "h1", "quick": ["-n", "20000"], "thorough": ["-n", "400000"]},
    ],
    "assumptions": ["voter ids unique (C07 next_config_wellformed)", "uint64 modelled as Nat (indexes far below 2^64)"],
}

PROPS["C07"] = {
    "lean_module": "RaftVerif.Props.C07",
    "theorems": [
        T("C07.next_config_delta_le_one_voter", "voter sets of a configuration and its successor differ at most on the named server"),
        T("C07.touches_only_target", "every other server entry is carried over unchanged, all five commands"),
        T("C07.next_config_wellformed", "results have non-empty unique ids and addresses and at least one voter"),
        T("C07.stale_prev_index_rejected", "a stale prevIndex is refused"),
        T("C07.adjacent_config_majorities_intersect", "quorums of adjacent configurations intersect (Finset, quorumSize = n/2+1)"),
    ],
    "engines": [
        {"engine": "nextconfig", "bin": "h1", "quick": ["-n", "20000"], "thorough": ["-n", "400000"]},
    ],
    "assumptions": ["server ids/addresses modelled as naturals (0 = empty string)"],
}

PROPS["C19"] = {
    "lean_module": "RaftVerif.Props.C19",
    "theorems": [
        T("C19.logcache_refines_store", "for every backend meeting two StoreLogs laws, every capacity and operation list (failures anywhere), LogCache answers exactly as the backend alone"),
        T("C19.logcache_refines_inmem", "the instance for the InmemStore model used by the correspondence run"),
        T("C19.cache_inv_step", "the cache invariant (a slot never lies about the backend, entries sit only in slot index % cap) is inductive"),
    ],
    "engines": [
        {"engine": "logcache", "bin": "h1", "quick": ["-n", "20000"], "thorough": ["-n", "60000"]},
    ],
    "assumptions": ["backend write failures are atomic (as in the suite's errorStore)", "callers do not mutate a *Log after StoreLogs (the cache keeps the pointer)",
                    "a transient backend read error can be masked by a cache hit (inherent to a cache)"],
}

HOOK_COMMITS = ["dfecdf5"]
