"""Per-property registry: the Lean module and theorems that are the proof obligations, and the
correspondence engines that tie the model to the code."""

def T(name, says, status="full"):
    return {"name": name, "says": says, "status": status}

PROPS = {}

PROPS["C05"] = {
    "lean_module": "RaftVerif.Props.C05",
    "theorems": [
        T("SV.ae_commit_exact", "the stepped AppendEntries, every image / state / request: after a successful answer the commit index is exactly max(old, min(LeaderCommitIndex, last index this request covers)) - the formula of the cluster model's follower, for which state-machine safety is proved"),
        T("SV.ae_commit_rule", "the stepped model's AppendEntries, every image / state / request: after a successful answer the commit index is the old one, or strictly larger and equal to min(LeaderCommitIndex, last index this request covers) - never over entries the request did not vouch for (the F8 repair), never backwards"),
        T("SV.commitBranch_commit", "the stepped leader loop: the commit index a leader reports is the commitment tracker's, the object C05.commit_is_majority speaks about"),
        T("SV.commitBranch_acks_committed", "and a call is acknowledged only when that commit index has reached its index"),
        T("SV.pipelineRun_inv", "the stepped pipelined replication (pipelineReplicate / pipelineSend / pipelineDecode), every order of sends and deliveries, every follower, every failing or crashing write on it: the index entered into the commitment table for the follower is the last entry of a delivered request that the follower acknowledged in that request's term, and every request queued or delivered was built by replSetup from the leader's own log"),
        T("SV.pipeDecode_refusal_ends", "a refusal or a newer term in a pipelined answer credits nothing and ends the pipeline"),
        T("SV.pipelineRun_credit_is_held", "the two composed over a whole pipelined run started against a follower with a well-formed log (every order of sends and deliveries, every fault): a non-zero credited index is the last entry of a request that a follower state with a well-formed log acknowledged, which therefore durably held it, above its snapshot, in the request's term"),
        T("SV.ack_means_held", "what an acknowledgement means on the stepped follower, any state, any armed write failure or crash: after answering success it durably holds every entry of the request above its snapshot, in the request's term - so the index a leader credits (afterAE_ack_moves_up, pipelineRun_inv) is held by the follower it is credited to"),
        T("C05.commit_is_majority", "every commitment step: monotone; a change needs a strict voter majority at the new index, >= startIndex, and is maximal"),
        T("C05.commit_monotone", "commit index monotone over every operation sequence"),
        T("C05.model_meets_spec", "the executable Spec evaluated on the implementation is met by the model"),
        T("C05.only_voters_tracked_setConfig", "after setConfiguration exactly the voters are tracked"),
        T("C05.only_voters_tracked_match", "match never changes the tracked set"),
    ],
    "engines": [
        {"engine": "commitment", "bin": "h1", "quick": ["-n", "20000"], "thorough": ["-n", "400000"]},
    ],
    "assumptions": ["voter ids unique (C07 next_config_wellformed)", "uint64 modelled as Nat (indexes far below 2^64)"],
}

PROPS["C07"] = {
    "lean_module": "RaftVerif.Props.C07",
    "theorems": [
        T("SV.campaign_leader_needs_quorum", "a candidate becomes leader only with a quorum of the voters of its latest configuration; its own vote counts only if it is a voter of it"),
        T("SV.campAsked_voters", "a candidate asks only voters of its latest configuration for pre-votes and votes"),
        T("SV.appendConfig_adopts_what_it_stored", "and when the store succeeds, the configuration the leader adopts is carried by the configuration entry its own log then holds at the index it names (with appendConfig_store_failure_adopts_nothing: a leader never acts on a configuration its log does not hold)"),
        T("SV.dispatch_keeps_latest_config", "dispatchLogs for any group of calls, store failing or not, leaves every index up to the old last index as it was, so the configuration entry the latest configuration names stays in the log (with the two appendConfig theorems: the step-level invariant behind the clause latest-configuration-is-not-in-the-log)"),
        T("SV.appendConfig_store_failure_adopts_nothing", "the stepped leader loop: when the StoreLogs call of appendConfigurationEntry fails, the latest configuration, its index and the log are what they were - a configuration no log holds is never the one a server acts on (the behaviour restored by the fix recorded as F22; the leader engine's clause latest-configuration-is-not-in-the-log checks it on the implementation)"),
        T("SV.lead_one_uncommitted_config", "the stepped leader loop: as long as it runs, every configuration entry in its log above the committed configuration's index is the latest configuration's entry - the log never holds two uncommitted configurations - for every step of API calls (membership calls served at once or after waiting for the gate), acknowledgements, heartbeat answers, a newer term reported, and every store fault"),
        T("SV.appendConfig_inv", "appendConfigurationEntry keeps that invariant exactly because it runs only when the latest configuration is the committed one (the gate)"),
        T("C07.next_config_delta_le_one_voter", "voter sets of a configuration and its successor differ at most on the named server"),
        T("C07.touches_only_target", "every other server entry is carried over unchanged, all five commands"),
        T("C07.next_config_wellformed", "results have non-empty unique ids and addresses and at least one voter"),
        T("C07.stale_prev_index_rejected", "a stale prevIndex is refused"),
        T("C07.adjacent_config_majorities_intersect", "quorums of adjacent configurations intersect (Finset, quorumSize = n/2+1)"),
    ],
    "engines": [
        {"engine": "nextconfig", "bin": "h1", "quick": ["-n", "20000"], "thorough": ["-n", "400000"]},
    ],
    "assumptions": ["server ids/addresses modelled as naturals (0 = empty string)"],
}

PROPS["C19"] = {
    "lean_module": "RaftVerif.Props.C19",
    "theorems": [
        T("C19.logcache_refines_store", "for every backend meeting two StoreLogs laws, every capacity and operation list (failures anywhere), LogCache answers exactly as the backend alone"),
        T("C19.logcache_refines_inmem", "the instance for the InmemStore model used by the correspondence run"),
        T("C19.cache_inv_step", "the cache invariant (a slot never lies about the backend, entries sit only in slot index % cap) is inductive"),
    ],
    "engines": [
        {"engine": "logcache", "bin": "h1", "quick": ["-n", "20000"], "thorough": ["-n", "60000"]},
    ],
    "assumptions": ["backend write failures are atomic (as in the suite's errorStore)", "callers do not mutate a *Log after StoreLogs (the cache keeps the pointer)",
                    "a transient backend read error can be masked by a cache hit (inherent to a cache)"],
}

H2 = {"bin": "h2.test"}

def handlers(pid, nq=6000, nt=120000):
    return {"engine": "handlers", "driver": "handlers-" + pid, "bin": "h2.test", "quick": ["-n", str(nq)], "thorough": ["-n", str(nt)]}

def universe(pid, nq=6000, nt=120000):
    return {"engine": "universe", "driver": "universe-" + pid, "bin": "h2.test", "quick": ["-n", str(nq)], "thorough": ["-n", str(nt)]}

def cluster(pid, nq=150, nt=4000):
    # exit code 17: the harness leaves its synctest bubble by os.Exit after flushing (parked proxy goroutines)
    return {"engine": "cluster", "driver": "cluster-" + pid, "bin": "h2.test", "quick": ["-n", str(nq)], "thorough": ["-n", str(nt)], "ok_codes": [17], "timeout": 6000}

def scenario(engine, pid, nq, nt):
    return {"engine": engine, "driver": "cluster-" + pid, "bin": "h2.test", "quick": ["-n", str(nq)], "thorough": ["-n", str(nt)], "ok_codes": [17], "timeout": 6000}

H3_NOTE = "H3: 3 or 5 real servers with full run loops in one synctest bubble behind fault-injecting proxies; the recorded global history is judged by the executable Spec predicates of Spec/ClusterSpec.lean (no model stepping: search for a failing history + evidence that real histories satisfy the predicates the theorems are about)"

SV_NOTE = "handlers modelled as write plans (Model/Server.lean): every durable write, failure ordinal and crash ordinal; tie = H2: the real server (skipStartup, FSM goroutine only, testing/synctest) and the model stepped through the same events, every observation compared (response, ordered durable writes, full durable image, volatile dump, FSM calls)"

PROPS["C01"] = {
    "lean_module": "RaftVerif.Props.C01",
    "theorems": [
        T("SV.campaign_leader_needs_quorum", "one pass of the candidate loop ends in leadership only with a quorum (of the latest configuration's voters) of granted votes, the server's own counted only if it is a voter"),
        T("SV.election_safety_sv", "a cluster of stepped servers, each an arbitrary run (any start image, any messages / snapshots / restarts, any write failure or crash ordinal): two candidates holding granted answers of one term from quorums of one voter configuration, or of two configurations one voter apart, are the same candidate"),
        T("SV.run_one_vote_per_term", "per server, along every run: two granted answers of one term name one candidate"),
        T("RP.election_safety", "cluster model (any size, fixed membership): two election wins in one term are by the same server, over all schedules, message loss/duplication/delay and crashes between the vote writes", "partial"),
        T("SV.vote_refines_core", "the bridge between the two models for RequestVote: for every durable image, volatile state, request and failing write of persistVote, the handler that is stepped against raft.go leaves the durable term and vote record exactly as the cluster model's RP.handleVote leaves its node (for the stage that failing write corresponds to) and grants iff it grants - whenever the request passes the two guards the cluster model lacks (sender a voter of the known configuration, no other leader known)"),
        T("SV.vote_refused_is_stutter", "and a request stopped by one of those two guards changes nothing at all: a stutter step of the cluster model, whose refusals are inert"),
        T("SV.campaign_vote_fault_no_leader", "a candidate whose vote for itself could not be persisted (either write of persistVote failing) does not become leader in that pass: it stays a candidate and counts nobody's answer"),
        T("MP.vote_once_per_term", "one server: all grants of a term name one candidate, for every request sequence, failure plan and crash point"),
        T("OV.same_config_quorums_intersect", "two quorums (n/2+1) of one configuration intersect"),
        T("OV.adjacent_config_majorities_intersect", "quorums of configurations differing by one voter intersect"),
    ],
    "engines": [handlers("C06"), universe("C06")],
    "assumptions": ["global theorem is about the cut-down cluster model Core/Model.lean (fixed membership, no pre-vote, no leader-known refusal); its vote and AppendEntries handlers were compared with the real ones in the design round; the full handlers are tied by H2", SV_NOTE],
    "level_note": "partial: the global theorem (RP.election_safety) covers fixed membership and is about the cut-down cluster model; its RequestVote handler is the stepped one by SV.vote_refines_core (every failing vote write), its AppendEntries merge by SV.ae_refines_core (core fragment); membership changes rest on OV.adjacent_config_majorities_intersect plus SV.lead_one_uncommitted_config (a leader never holds two uncommitted configurations) - the composition into one global proof with membership changes is not done. Candidate loop (also with a failing vote write) and leader loop are in the stepped model.",
}

PROPS["C02"] = {
    "lean_module": "RaftVerif.Props.C02",
    "theorems": [
        T("SV.ae_commit_rule", "the stepped model's AppendEntries, every image / state / request: after a successful answer the commit index is the old one, or strictly larger and equal to min(LeaderCommitIndex, last index this request covers) - never over entries the request did not vouch for (the F8 repair), never backwards"),
        T("RP.state_machine_safety", "cluster model: any two servers agree on every index up to both commit indexes", "partial"),
        T("RP.state_machine_safety_snap", "the same up to max(commit, snapshot index), with snapshots, compaction and InstallSnapshot", "partial"),
        T("RP.fsm_safety", "over ghost records of every entry ever handed to any FSM and every state ever restored, in every lifetime: equal index => equal entry; restored states are the agreed prefix", "partial"),
    ],
    "engines": [universe("C02"), handlers("C02", 3000, 60000)],
    "assumptions": ["global theorems are about the cut-down cluster model (fixed membership); tie of the follower side = H2 universe engine with ghost truth", SV_NOTE],
    "level_note": "partial: follower side (handlers, restart) and leader side (commit branch, processLogs up to the last ready call) are in the stepped model; the FSM goroutine itself (batching, response pairing) is covered by the H3 monitors only; global theorems are about the cut-down cluster model, bridged to the stepped handlers by SV.vote_refines_core / SV.ae_refines_core.",
}

PROPS["C03"] = {
    "lean_module": "RaftVerif.Props.C03",
    "theorems": [
        T("RP.leader_completeness", "cluster model: an entry of term t acknowledged by a strict majority in term t is in the log of every server that wins a later term", "partial"),
        T("RP.ack_exact", "once a commit index has reached k with entry e there, every FSM record at k is e", "partial"),
        T("RP.ack_exact_forever", "... and stays so in every continuation", "partial"),
    ],
    "engines": [universe("C03")],
    "assumptions": ["cut-down cluster model, fixed membership", SV_NOTE],
}

PROPS["C04"] = {
    "lean_module": "RaftVerif.Props.C04",
    "theorems": [
        T("RP.log_matching", "cluster model: equal (index, term) in two logs => equal logs through that index, every execution", "partial"),
        T("SV.replSetup_wellformed", "the leader's side, as stepped against the real replicateTo: every AppendEntries request the replication routine builds is a window of the leader's own log - previous entry = the origin, the snapshot boundary or the stored entry just before nextIndex, entries = the stored entries nextIndex, nextIndex+1, ... without a gap, at most MaxAppendEntries of them and none beyond lastIndex, in the leader's term with the leader's commit index"),
        T("SV.ae_refines_core", "the bridge between the two models for AppendEntries (core fragment: no snapshot, the store holds the entries 1..n, the cached last entry is the store's; request entries numbered from PrevLogEntry+1): the log the handler stepped against raft.go leaves behind is, entry for entry, the log the cluster model's RP.handleAE computes (take prev ++ mergeSuffix (drop prev) entries), and - unless the process dies while applying - it answers success exactly when RP.handleAE does"),
        T("SV.ae_refines_core_commit", "... and the commit index it then reports is the one RP.handleAE computes, max(old, min(LeaderCommitIndex, prev + number of entries)) (from SV.ae_commit_exact)"),
        T("SV.ae_crash_refines_core", "the crash point: if the stepped handler dies after everything it writes before the final StoreLogs (the truncation done, the new entries not stored), the log it leaves is the log of RP.handleAE at stage 0, take prev ++ truncSuffix (drop prev) entries - so both crash images of the follower's merge are states of the cluster model"),
        T("SV.scan_is_merge", "the entry scan + DeleteRange from the reported conflict + StoreLogs of what the scan asks for is the list merge of the cluster model, for every log 1..n and every request numbered from p+1 (p <= n)"),
        T("SV.prevOk_core", "the previous-entry check of the stepped handler (cached last entry / store lookup) is the cluster model's check (length and term at that position)"),
        T("SV.ae_success_sound", "the stepped model's AppendEntries, every failure and crash ordinal: a success answer implies term >= own, the previous-entry check passed, and every planned write (truncation, staging, storing) was performed before the answer"),
        T("SV.aePrevOk_true", "what a passed previous-entry check means: PrevLogEntry = 0, or the cached last entry / the snapshot boundary with the announced term, or inside the snapshot, or stored with the announced term"),
        T("SV.aePlan_steps_refuse", "whatever write of AppendEntries fails, the answer is not success"),
        T("SV.pipelineRun_inv", "in the pipelined mode too, every request queued or delivered is one replSetup built from the leader's log (so replSetup_wellformed speaks about it), for every order of sends and deliveries"),
        T("SV.ae_stale_term_inert", "the stepped model's AppendEntries with an older term: no write, no state change, answer false with the server's term"),
        T("SV.ae_success_log", "the store after a successful AppendEntries (well-formed log, entries with ascending indexes, every failure and crash ordinal): every sent entry above the snapshot is at its index with the sent term (the sent entry itself or the identical-term entry already held), every index below all sent entries holds exactly what it held, the log stays well-formed"),
        T("SV.run_sorted", "started on a well-formed image, every run of the stepped server (all events, failures, crashes) keeps the log well-formed: ae_success_log's hypothesis holds in every reachable state"),
        T("SV.applyAll_sorted", "the log's representation invariant (strictly ascending indexes, i.e. the list is a map) survives every durable write, hence every crash image"),
        T("SV.scanEntries_spec", "the entry scan splits the request into a held/covered prefix and the suffix to store, and reports a conflict exactly at the first entry to store"),
    ],
    "engines": [handlers("C04"), universe("C04")],
    "assumptions": [SV_NOTE],
}

PROPS["C06"] = {
    "lean_module": "RaftVerif.Props.C06",
    "theorems": [
        T("MP.vote_once_per_term", "all grants of a term name one candidate: every request sequence, every failure plan, every crash point between the three stable writes"),
        T("SV.run_one_vote_per_term", "the stepped model of the real handlers, started by NewRaft on ANY durable image: along every sequence of RequestVote / RequestPreVote / AppendEntries / InstallSnapshot / TimeoutNow messages, role changes, restarts and restarts with a damaged snapshot, with a write failure or a crash at any write ordinal of any handler, two granted answers of one term name one candidate"),
        T("SV.run_term_monotone", "along every such run the durable term never decreases and a running server's in-memory term always equals its durable term"),
        T("SV.vote_refines_core", "the stepped RequestVote handler does to the durable term and vote record exactly what the cluster model's RP.handleVote does, for every failing vote write (stage 0 / 1 / 2), and grants iff it grants - the bridge from the model tied to the code to the model the global theorems are about"),
        T("SV.campaign_vote_fault_no_leader", "a candidate whose own vote could not be persisted does not become leader in that pass"),
        T("SV.grant_step", "a reported grant is on disk and binding when it is reported, and agrees with every grant that was binding before"),
        T("SV.step_inv", "one event of any kind keeps every earlier grant binding: the durable term rose above it, or it is that term and the vote record still names the candidate - for every prefix of every handler's writes"),
        T("SV.vote_grant_sound", "the stepped model's RequestVote, every failure and crash ordinal: a granted answer implies term >= own, candidate at least as up to date as the last entry, sender a voter of the known configuration, no other known leader (unless transfer), all planned writes performed and the durable vote record = (this term, this candidate)"),
        T("SV.votePlan_steps_refuse", "a failed vote write always answers not granted"),
        T("SV.exec_prefix", "whatever write fails or wherever the process dies, the durable effect of a handler is a prefix of its write plan"),
        T("SV.prevote_inert", "RequestPreVote writes nothing and changes no state"),
    ],
    "engines": [handlers("C06"), universe("C06")],
    "assumptions": [SV_NOTE, "heartbeat fast path (a second writer of the term on the transport goroutine, F10) is not in the stepped model"],
}

PROPS["C10"] = {
    "lean_module": "RaftVerif.Props.C10",
    "theorems": [
        T("SV.exec_prefix", "every crash image is the durable state after a prefix of some handler's write plan"),
        T("SV.restart_resumes", "whenever NewRaft returns a server on a durable image: its term is the durable term, it is a follower, its cached last entry is the store's last entry, its snapshot position is the newest usable snapshot's; snapshots listed but none usable means no server"),
        T("SV.restart_fsm", "the FSM is handed the newest usable snapshot first, then exactly the command entries above it up to the new lastApplied, each once, in increasing index order, none skipped; without RestoreCommittedLogs nothing is replayed, with it lastApplied = max(snapshot, min(staged, last)) and commit = min(staged, last)"),
        T("SV.restart_returns", "NewRaft returns whenever the snapshot store lists nothing or a usable snapshot, the store holds the entry its last index names and the log is contiguous from just above that snapshot to its last index"),
        T("SV.damaged_falls_back", "after the newest usable snapshot is damaged the next usable one (newest first) is used"),
    ],
    "engines": [universe("C10"), handlers("C10", 3000, 60000)],
    "assumptions": [SV_NOTE, "restart = NewRaft on the surviving stores; crash images are taken at every durable-write ordinal of every handler"],
    "level_note": "partial: the theorems are about the model's NewRaft (`SV.restart`), tied to the real constructor by correspondence on every generated crash image (incl. a damaged newest snapshot); `rejoins and catches up without breaking any safety property` rests on the cluster engine's monitors.",
}

PROPS["C11"] = {
    "lean_module": "RaftVerif.Props.C11",
    "theorems": [
        T("SV.snap_writes", "takeSnapshot in the stepped model, every server state: at most a snapshot and one log deletion; the snapshot ends at the FSM goroutine's position, carries the committed configuration (its entry at or below that position) and the FSM content; the deletion starts at the store's first index, ends at or below the snapshot and leaves at least TrailingLogs entries"),
        T("SV.snap_position_monotone", "a local snapshot never moves the cached snapshot position back (the F9 repair)"),
        T("CP.compactRange_spec", "compaction deletes from the first index, never above the snapshot, keeps TrailingLogs entries"),
        T("CP.compactRange_maximal", "and deletes everything those bounds allow"),
        T("CP.removeOldLogs_all", "removeOldLogs removes the whole store"),
        T("RP.snapshot_coverage", "cluster model: every index up to the last index is under the snapshot or in the stored window; the snapshot's (index, term) lies on the full log", "partial"),
        T("SV.install_covered_inert", "the stepped model's InstallSnapshot for a snapshot the server is already past (applied index, or it holds the snapshot's last entry): acknowledged with no durable write and no FSM call"),
    ],
    "engines": [{"engine": "compaction", "bin": "h1", "quick": ["-n", "20000"], "thorough": ["-n", "400000"]}, universe("C11")],
    "assumptions": [SV_NOTE],
    "level_note": "partial: takeSnapshot is in the stepped model as an atomic step of the snapshot goroutine (event K); its interleaving with the main loop (the F9 window) is exercised by the cluster engine only.",
}

PROPS["C14"] = {
    "lean_module": "RaftVerif.Props.C14",
    "theorems": [
        T("SV.campaign_no_quorum_inert", "one pass of the real candidate loop (stepped model SV.campaign), pre-vote on, no transfer pending: a pre-vote round with fewer grants than the quorum and no newer term in sight writes nothing and leaves the server's state - its term - as it was"),
        T("SV.campaign_alone_inert", "in particular when nobody answers and the server is not the only voter: an isolated server never raises its term, however often it campaigns"),
        T("SV.prevote_inert", "RequestPreVote writes nothing, changes no volatile state, hands nothing to the FSM - whatever is armed"),
        T("SV.prevote_event_inert", "in the stepped world a pre-vote event leaves the whole server state unchanged"),
        T("SV.prevote_grant_sound", "a pre-vote is granted only to an up-to-date voter, never against a known leader, never for an older term"),
    ],
    "engines": [handlers("C14"), universe("C14", 3000, 60000)],
    "assumptions": [SV_NOTE],
    "level_note": "partial: handler half and candidate loop are proved on the stepped model; the follower loop's heartbeat timeout (the step from follower to candidate) and the rejoin clause rest on the cluster engine.",
}

PROPS["C07"]["engines"] += [universe("C07", 6000, 100000), cluster("C07")]
PROPS["C07"]["assumptions"] += [SV_NOTE, H3_NOTE]
PROPS["C14"]["engines"].append(cluster("C14"))
PROPS["C10"]["engines"].append(cluster("C10"))
PROPS["C11"]["engines"].append(cluster("C11"))
PROPS["C10"]["assumptions"].append(H3_NOTE)
PROPS["C11"]["assumptions"].append(H3_NOTE)
PROPS["C14"]["assumptions"].append(H3_NOTE)
PROPS["C05"]["engines"].append(cluster("C05"))
PROPS["C05"]["engines"].append(universe("C05"))
for _p in ["C01", "C02", "C03", "C04"]:
    PROPS[_p]["engines"] = PROPS[_p]["engines"] + [cluster(_p)]
    PROPS[_p]["assumptions"] = PROPS[_p]["assumptions"] + [H3_NOTE]

PROPS["C08"] = {
    "lean_module": "RaftVerif.Props.C08",
    "theorems": [
        T("SV.dispatch_ok", "the stepped leader loop, dispatchLogs for any group of calls: one StoreLogs (after the optional staging of the commit index) with the group's entries numbered consecutively from the last index, in the leader's term, in call order; the calls are in flight, nobody has been answered yet"),
        T("SV.dispatch_failed", "a failing StoreLogs stores nothing of the group, answers every call of the group with the store's error and leaves the server a follower"),
        T("SV.commitBranch_acks_committed", "the commit branch answers nil only in-flight calls whose index the commit index has reached, with exactly that index and, for a command, that command's own response; it answers nobody else"),
        T("SV.commitBranch_rest", "what stays in flight afterwards is the tail of the in-flight list from the first call the commit index has not reached: no call is dropped unanswered"),
        T("SV.commitBranch_commit", "the commit index the server reports after the commit branch is the commitment tracker's (whose every advance is a voter majority at or above the leader's first index: C05.commit_is_majority)"),
        T("SV.cleanup_answers_everyone", "on the way out of leadership every call still in flight and every pending VerifyLeader is answered"),
        T("RP.ack_exact_forever", "cluster model: once a commit index has reached k with entry e there (the moment an Apply future resolves nil), every FSM is handed e at k in every continuation", "partial"),
        T("RP.fsm_safety", "no two FSM records at one index differ", "partial"),
    ],
    "engines": [cluster("C08", 200, 5000)],
    "assumptions": [H3_NOTE, "client calls carry unique payloads; Response() is compared with the payload the FSM returns for that very entry"],
    "level_note": "partial: the leader loop (dispatchLogs, in-flight futures, commit branch, clean-up) is in the stepped model and proved about; the FSM goroutine's batching and response pairing, leadership transfer and the ErrEnqueueTimeout path are covered by the H3 monitors only; the global theorems are about the cut-down cluster model.",
}

PROPS["C12"] = {
    "lean_module": "RaftVerif.Props.C12",
    "theorems": [
        T("RP.catchup_terminates", "for every leader log, every follower log (shorter, longer, divergent, empty), every nextIndex and batch size: within nextIndex + |L| AppendEntries rounds the follower holds the leader's log"),
        T("SV.afterAE_refusal_moves_down", "the stepped replication routine never repeats a refused request: a refusal moves nextIndex strictly down (never below 1, never above the follower's hint + 1) and the loop goes on"),
        T("SV.afterAE_ack_moves_up", "an acknowledgement moves nextIndex just past the last entry sent and records exactly that entry as stored by the follower, never lowering what was recorded"),
        T("SV.afterAE_newer_term_stops", "a newer term in an answer stops replication at once"),
        T("SV.pipeDecode_refusal_ends", "pipelined mode: a refused request ends the pipeline with the replication state untouched, handing the follower back to replicateTo, whose refusal handling (afterAE_refusal_moves_down) walks nextIndex back"),
        T("SV.pipeDecode_credit", "pipelined mode: the decoder moves nextIndex and the recorded match only on an acknowledgement, to exactly the last entry of the acknowledged request"),
        T("SV.replSetup_wellformed", "every request is built from the leader's own log, numbered from PrevLogEntry + 1 (the hypothesis under which SV.ae_refines_core identifies the follower's merge with the cluster model's, for which RP.catchup_terminates is proved)"),
    ],
    "engines": [cluster("C12", 200, 5000), universe("C12", 3000, 60000)],
    "assumptions": [H3_NOTE, "the election-time bound is a statement about random timer draws and is measured (virtual time), not proved; convergence is checked 15 virtual seconds after the faults stop (replication back-off reaches 10.24 s)"],
    "level_note": "partial: catch-up by AppendEntries is proved for the cut-down model (RP.catchup_terminates), whose merge is the stepped follower\'s by SV.ae_refines_core and whose requests are the stepped leader\'s by SV.replSetup_wellformed; the step-level progress lemmas are proved on the stepped routine; the snapshot branch is tied by the catch-up engine only; the election-time bound is measured, not proved.",
}

PROPS["C17"] = {
    "lean_module": "RaftVerif.Props.C17",
    "theorems": [
        T("RL.every_future_resolves", "role-loop model: every Apply future that reached the main loop is in flight or resolved exactly once, and nothing is in flight once the server is not leader (step-down, lost election, shutdown) - for every sequence of role changes, calls, commits and shutdown", "partial"),
        T("RL.refused_call_not_queued", "a call arriving at a non-leader / shut-down server is answered ErrNotLeader / ErrRaftShutdown at once and never queued"),
        T("SV.cleanup_answers_everyone", "the stepped leader loop: runLeader's clean-up answers every call still in flight and every pending VerifyLeader"),
        T("SV.cleanup_keeps_answers", "and it answers with ErrLeadershipLost only, never replacing an answer already given"),
        T("SV.step_lead_only_while_leader", "whatever a step does (calls, acknowledgements, heartbeats, a newer term reported by a follower, a request of another server), the leader's bookkeeping (in-flight futures, pending verifications) survives it only if the server is still leader: every way out of leadership runs the clean-up"),
        T("SV.dispatch_failed", "a failing StoreLogs answers every call of the group with the store's error"),
    ],
    "engines": [cluster("C17", 200, 5000)],
    "assumptions": [H3_NOTE, "a call counts as stranded when it has not resolved after 20 virtual seconds; NotifyCh/Observer consumers and the FSM are live in the harness"],
    "level_note": "partial: the stepped leader loop answers every in-flight call and pending VerifyLeader on every way out of leadership (proved); membership calls waiting for the gate, leadership transfer, snapshot / restore futures and the buffered queues around Shutdown (F5) are covered by the H3 monitors only.",
}

PROPS["C18"] = {
    "lean_module": "RaftVerif.Props.C18",
    "theorems": [
        T("SV.stale_install_inert", "an InstallSnapshot of an older term writes nothing and leaves the whole volatile state - in particular the leader the server names - as it was"),
        T("SV.stale_append_inert", "an AppendEntries of an older term likewise"),
        T("SV.stale_vote_inert", "a RequestVote of an older term likewise"),
        T("RL.notify_alternates", "role-loop model: for every sequence of elections, step-downs and shutdown NotifyCh carries true,false,true,... with one message per gain or loss of leadership, and the last value says whether the server is leader now"),
    ],
    "engines": [cluster("C18", 200, 5000)],
    "assumptions": [H3_NOTE, "the NotifyCh consumer of the harness is always ready; Leader()/LeaderWithID faithfulness on followers is not yet monitored"],
    "level_note": "partial: NotifyCh alternation is proved on the role-loop model and compared step by step in the leader engine; LeaderCh is monitored (H3); the follower clause is an all-input Spec clause (leaderIsOfCurrentTerm, staleRequestKeepsLeader) on the stepped handlers plus election safety (C01), not a theorem.",
}

PROPS["C15"] = {
    "lean_module": "RaftVerif.Props.C15",
    "theorems": [
        T("FSS.list_implies_complete", "every snapshot among the first `retain` of the newest-first scan of ANY crash image has both files, state.bin equal to the bytes handed to the sink and meta.json carrying their CRC"),
        T("FSS.list_sorted_and_bounded", "List is newest first and at most `retain` long"),
        T("FSS.unfinished_never_listed", "a sink that did not reach rename (in progress, failed, cancelled, half removed) is invisible"),
        T("FSS.closed_is_durable", "after Close returned nil the snapshot survives every later crash unless `retain` newer ones displace it"),
        T("FSS.reap_keeps_newest", "whatever is doomed has at least `retain` newer snapshots that are durable, complete and not doomed"),
    ],
    "engines": [
        {"engine": "filesnap", "bin": "h4", "quick": ["-n", "40"], "thorough": ["-n", "800"], "timeout": 6000},
    ],
    "assumptions": ["crash model: namespace operations reach the disk in issue order (ordered journal), fsync of a file or of the parent forces the journal tail; file content written since the file's last fsync is independently kept or lost",
                    "tie = H4: the real store runs under strace -f; (i) its ordered syscalls equal the model program FSP.program (same label alphabet as the proved transition system FSS) up to bufio write splitting and the unlink order of RemoveAll; (ii) on EVERY crash image of the observed trace (crash after each syscall x journal cut since the last fsync x unsynced data kept/lost) the real List/Open satisfy the Spec",
                    "the CRC is uninterpreted in the theorems; corrupted-file inputs are covered by the crash images only (torn = un-synced content lost)"],
    "technique": "Lean 4 proof over a syscall-level transition system + strace-based correspondence and crash-image enumeration",
}

PROPS["C16"] = {
    "lean_module": "RaftVerif.Props.C16",
    "theorems": [
        T("WR.decAEReq_enc", "decode (encode m ++ rest) = (m, rest) for every well-formed AppendEntriesRequest with any number of entries (msgpack subset of go-msgpack as net_transport.go configures it)"),
        T("WR.decAEResp_enc", "the same for AppendEntriesResponse"),
        T("WR.decStream_enc", "a back-to-back stream of pipelined responses decodes to exactly those responses, in order"),
    ],
    "engines": [
        {"engine": "wire", "bin": "h5", "quick": ["-n", "300"], "thorough": ["-n", "6000"], "timeout": 6000},
    ],
    "assumptions": ["the msgpack model is a model of a dependency (go-msgpack); its agreement with the real codec is checked byte for byte on every generated AppendEntries exchange that passes through two real NetworkTransports",
                    "TCP itself and wall-clock deadlines are outside the model; connection faults appear as a cut after k bytes",
                    "tie = H5: handler sees exactly what was sent, caller gets exactly what the handler produced (all five RPC types, InstallSnapshot bodies up to 100000 bytes), pipelines in order with own responses, a failed exchange yields an error and the next exchange its own response"],
    "level_note": "partial: round-trip theorems cover AppendEntries request/response and response streams; the other message types and the pool discipline are covered by H5 observations only.",
}

PROPS["C09"] = {
    "lean_module": "RaftVerif.Props.C09",
    "theorems": [
        T("VL.verify_acks_produced_after_call", "heartbeat routine model (requests taken when the heartbeat is sent, put back on failure): every credited acknowledgement answers a heartbeat sent strictly after the request was registered - any number of followers, every schedule of registrations, sends, responses and failures"),
        T("VL.C09_straddling_ack_witness", "witness for the behaviour before the repair: send, register, response credits an acknowledgement produced before the call"),
    ],
    "engines": [cluster("C09", 120, 3000), scenario("verify", "C09", 100, 2500)],
    "assumptions": [H3_NOTE, "the verify engine runs the four litmus schedules only (leader with a slow clock; only non-voters reachable / a heartbeat answer held in the network across an election / an uncommitted demotion / an InstallSnapshot answer held across an election); monitor: a successful VerifyLeader on s in term T while another server had acted as leader of a higher term before the call began is a violation",
                    "the voters-only clause (quorum arithmetic) is covered by the monitor and the litmus, not by a theorem"],
    "level_note": "partial: the freshness clause is proved for the heartbeat-routine model VL and stepped against the code in the leader engine (the requests a heartbeat carries are taken when it is sent); voter counting is compared step by step there (verifyFresh, diff) and monitored in H3, not proved.",
}

PROPS["C13"] = {
    "lean_module": "RaftVerif.Props.C13",
    "theorems": [
        T("LS.isolated_leader_steps_down", "timed model of checkLeaderLease and its re-arming: if from t0 on fewer than quorum-1 other voters answer, the server is leader only at instants <= t0 + 2*lease (lease >= 10 ms), for every arrival pattern of the remaining answers; hypothesis: the main loop serves the timer when it is due"),
        T("LS.responsive_majority_keeps_leader", "if a quorum of voters keeps answering within the lease the check never deposes the leader"),
    ],
    "engines": [scenario("lease", "C13", 60, 1500)],
    "assumptions": [H3_NOTE, "virtual time (synctest): scheduling latency of the main goroutine is not part of the measurement; 10 ms of slack for answers already travelling when the leader is cut off",
                    "for 5 ms <= LeaderLeaseTimeout < 10 ms the bound is lease + 10 ms (stated in DESIGN.md, outside the property's quantifier)"],
}

PROPS["C08"]["engines"].append(scenario("restore", "C08", 300, 5000))

PROPS["C20"] = {
    "lean_module": "RaftVerif.Props.C20",
    "theorems": [
        T("UR.restore_effects", "an accepted Restore: the snapshot's index is above both its own index and every earlier index, the FSM position equals it, every in-flight call is answered ErrAbortedByRestore and nothing stays in flight, every later entry gets a larger index"),
        T("UR.restore_refused_when_unstable", "refused, without effect, while a membership change is uncommitted or a leadership transfer is in progress"),
        T("UR.restore_burns_index", "max(meta.Index, last)+1 is above both"),
    ],
    "engines": [scenario("restore", "C20", 300, 5000)],
    "assumptions": [H3_NOTE, "user Restore is an epoch boundary: the agreed-history monitors of C02/C03 are not applied to restore runs; C20's monitor checks the leader's FSM at the restore, indexes of later writes, aborted writes, and the final states of all servers",
                    "the refusal clause is proved for the model and not exercised by the harness"],
    "level_note": "partial: the leader-side bookkeeping is a small hand-written model of restoreUserSnapshot; its tie is the H3 restore scenario only (no stepping).",
}

PROPS["C17"]["engines"].append(scenario("restore", "C17", 300, 5000))
PROPS["C18"]["engines"] += [handlers("C18", 4000, 80000), universe("C18", 4000, 80000)]
PROPS["C18"]["assumptions"].append(SV_NOTE)
PROPS["C20"]["engines"].append({"engine": "compaction", "bin": "h1", "quick": ["-n", "20000"], "thorough": ["-n", "400000"]})

PROPS["C03"]["engines"].append({"engine": "commitment", "bin": "h1", "quick": ["-n", "20000"], "thorough": ["-n", "400000"]})
PROPS["C03"]["assumptions"].append("the commitment engine (C05's correspondence) and the membership gate monitor run here too: the permanence argument rests on commit = voter majority and on single-server configuration changes")

SINKFAULT = {"engine": "sinkfault", "bin": "h1", "quick": ["-n", "400"], "thorough": ["-n", "10000"]}
PROPS["C15"]["engines"].append(SINKFAULT)
PROPS["C11"]["engines"].append(SINKFAULT)

PROPS["C07"]["engines"].append(handlers("C07", 3000, 60000))

CATCHUP = {"engine": "catchup", "bin": "h2.test", "quick": ["-n", "6000"], "thorough": ["-n", "100000"]}
PROPS["C12"]["engines"].append(CATCHUP)
PROPS["C04"]["engines"].append(CATCHUP)
PROPS["C05"]["engines"].append(CATCHUP)
PROPS["C03"]["engines"].append(CATCHUP)
PROPS["C05"]["assumptions"].append("catch-up engine here too: what the leader's replication routine enters into the commitment table for a follower (AppendEntries and InstallSnapshot answers) is compared with the model and judged against what that follower holds")
PROPS["C12"]["assumptions"].append("catch-up engine: the leader's real replicateTo (non-pipelined) against a real follower's handlers, model (SV.replicateTo = leader-side loop composed with the handler model) compared request by request; the pipelined mode is exercised only by the cluster engine")

def leader(pid, nq=5000, nt=30000):
    return {"engine": "leader", "driver": "leader-" + pid, "bin": "h2.test", "quick": ["-n", str(nq)], "thorough": ["-n", str(nt)]}

LEADER_NOTE = "leader engine: the real runLeader / leaderLoop on one server whose peers are played by the harness (every replication and heartbeat request parked in the transport, no virtual time passing), one loop iteration per stimulus, compared with SV.stepLeader observation by observation (durable writes, volatile state, FSM calls, resolved futures with index and response, commitment table, in-flight list, NotifyCh); the replication routines are the environment (their requests are judged against the leader's log, their acknowledgements are inputs); leadership transfer, user Restore and the lease timer are not stepped here"
for _p in ["C01", "C02", "C03", "C04", "C05", "C07", "C08", "C09", "C12", "C13", "C17", "C18"]:
    PROPS[_p]["engines"].append(leader(_p))
    PROPS[_p]["assumptions"].append(LEADER_NOTE)

def follower(pid, nq=3000, nt=40000):
    return {"engine": "follower", "driver": "leader-" + pid, "bin": "h2.test", "quick": ["-n", str(nq)], "thorough": ["-n", str(nt)]}

FOLLOWER_NOTE = "follower engine: the real runFollower on one server (virtual time advanced past the heartbeat timeout so that the loop's own timer fires; requests of other servers and API calls go through the loop), stepped against SV.stepLeader's follower events (heartbeatTimeout / idle / rpc / calls refused); once the loop has made the server a candidate, passes of the real candidate loop follow"
for _p in ["C07", "C12", "C14", "C17", "C18"]:
    PROPS[_p]["engines"].append(follower(_p))
    PROPS[_p]["assumptions"].append(FOLLOWER_NOTE)
PROPS["C07"]["theorems"].append(T("SV.nonvoter_never_campaigns", "the stepped follower loop: a server that is not a voter of its latest configuration (non-voter, staging, removed, or without any configuration) never leaves the follower state by a heartbeat timeout, however often the timer fires"))
PROPS["C14"]["theorems"].append(T("SV.nonvoter_never_campaigns", "a heartbeat timeout never makes a non-voter a candidate"))
PROPS["C14"]["theorems"].append(T("SV.followerTimeout_forgets_leader", "a heartbeat timeout forgets the leader and leaves term, commit index and configuration as they were (the term moves only in a campaign, where SV.campaign_no_quorum_inert applies)"))
PROPS["C18"]["theorems"].append(T("SV.followerTimeout_forgets_leader", "a follower that has lost contact for a heartbeat timeout stops naming a leader"))
PROPS["C12"]["theorems"].append(T("SV.voter_campaigns", "a voter that knows its configuration does become a candidate when its heartbeat timer finds no recent contact: the timeout is never lost"))
PROPS["C17"]["theorems"].append(T("SV.refused_without_leader", "a call that needs a leader, reaching a server whose leader loop is not running, is answered ErrNotLeader at once and leaves no trace: no write, no state change, nothing queued"))

PROPS["C13"]["lean_module"] = "RaftVerif.Props.C13"
PROPS["C13"]["theorems"] += [
    T("SV.lease_deposes_without_quorum", "the stepped leader loop: when a lease check falls due and fewer voters than a quorum (the leader itself included only if it is one) have answered within the lease, the server is a follower afterwards"),
    T("SV.lease_rearmed_within_lease", "a check that finds a quorum re-arms the timer at most one lease ahead (at least minCheckInterval): a leader is never left unchecked for longer than the lease"),
    T("SV.leaseLoop_role", "the lease check only ever turns a leader into a follower"),
]
PROPS["C13"]["assumptions"].append("in a third of the leader engine's cases virtual time passes in ticks of 250 ms (LeaderLeaseTimeout 250 ms, HeartbeatTimeout 1 s): the real lease timer, checkLeaderLease and its re-arming run and are compared with SV.tickStep; the Spec clause leaseRule judges the observed run (two leases of silence from every other voter leave no leader; a quorum heard within the lease is never deposed)")

HOOK_COMMITS = ["dfecdf5", "9779dc0", "4292c91", "99b3530", "d0a2b1a", "e08c15a", "763d9c7", "eee3e4b"]
