#!/usr/bin/env python3
"""Regenerates /verif/MANIFEST.json from checks/registry.py (so that the two never drift)."""
import json, os, sys
ROOT = os.path.dirname(os.path.dirname(os.path.abspath(__file__)))
sys.path.insert(0, os.path.join(ROOT, "checks"))
import registry

ALL = ["C%02d" % i for i in range(1, 21)]
checks, na = [], []
for pid in ALL:
    s = registry.PROPS.get(pid)
    if not s or s.get("disabled"):
        na.append({"property_id": pid, "reason": (s or {}).get("disabled", "check not built yet (build in progress; see DESIGN.md section 9)")})
        continue
    nfull = sum(1 for t in s["theorems"] if t.get("status", "full") == "full")
    checks.append({
        "property_id": pid,
        "quick_cmd": "./check %s quick" % pid,
        "thorough_cmd": "./check %s thorough" % pid,
        "evidence_file": "evidence/%s.json" % pid,
        "replay_cmd_template": "./check %s --replay {path}" % pid,
        "engine": "lean4-proof+correspondence",
        "level_claimed": {
            "category": "proof",
            "text": s.get("level_text", "Lean 4 theorems about a hand-written model (%d registered, %d at full strength), tied to the Go code by a differential correspondence run on every check; the Spec predicates the theorems are about are also evaluated on the implementation's own outputs." % (len(s["theorems"]), nfull)),
            "design_ref": "DESIGN.md section 6, " + pid,
        },
        "level_note": s.get("level_note", "Trusted: Lean kernel; axioms propext/Classical.choice/Quot.sound only; the hand-written model's agreement with the code is checked by differential runs (bounded by generator quality), not proved.") + " Assumptions: " + "; ".join(s.get("assumptions", [])),
        "technique": s.get("technique", "Lean 4 proof over a hand-written model + model/implementation correspondence check"),
    })
m = {
    "version": 1,
    "setup_cmd": "./setup.sh",
    "hooks": {
        "guard": "verif",
        "enable": "go1.26 build -tags verif (GOTOOLCHAIN=local GOFLAGS=-mod=mod GOPROXY=off); the only hook is the added file /repo/verif_export.go (//go:build verif)",
        "baseline_off_cmd": "cd /repo && for m in . ./fuzzy ./raft-compat; do (cd $m && go test -mod=mod -json -vet=off -count=1 -timeout 25m ./...); done",
        "source_commits": registry.HOOK_COMMITS,
        "add_only": True,
    },
    "engines": [
        {"name": "lean4-proof+correspondence", "path": "check", "serves_properties": [c["property_id"] for c in checks],
         "kind_free_text": "Lean 4 lake project (lean/) with the model, Spec predicates and property theorems; Go harnesses (harness/) built against /repo's working tree with -tags verif; compiled Lean driver (rvdriver) judging every implementation output against model and Spec"},
    ],
    "checks": checks,
    "not_applicable": na,
    "notes": "See DESIGN.md. Known findings: known_findings.json. Seeded changes used to test the checks: seeded/.",
}
json.dump(m, open(os.path.join(ROOT, "MANIFEST.json"), "w"), indent=1)
print("checks:", [c["property_id"] for c in checks], "not claimed:", [n["property_id"] for n in na])
