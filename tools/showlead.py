#!/usr/bin/env python3
"""showlead.py <pairs> [<driver engine>] : print the first non-ok leader cases with their observations split"""
import sys, subprocess
pairs=sys.argv[1]; eng=sys.argv[2] if len(sys.argv)>2 else 'leader'
v=subprocess.run(['/verif/lean/.lake/build/bin/rvdriver',eng],stdin=open(pairs),capture_output=True,text=True).stdout.split('\n')
l=open(pairs).read().split('\n')
shown=set()
for k,x in enumerate(v):
    if x and x!='ok':
        key=x.split('@')[0]
        if key in shown: continue
        shown.add(key)
        print(k,x); 
        c=l[2*k]; ev=c[c.index(' EV '):]
        print(c[:c.index(' EV ')][:600]); 
        import re
        evs=re.split(r' (?=(?:R|S|C|K|X|H) )', ev)
        for i,e in enumerate(evs): print('   ev',i-1,e[:300])
        obs=l[2*k+1].split(' O ')
        for i,o in enumerate(obs):
            j=o.find(' D '); f=o.find(' F ',j)
            print('   obs',i-1, o[:j][:260], '...', o[f:][:400])
        print()
