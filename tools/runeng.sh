#!/bin/bash
# usage: runeng.sh <engine> <seed> <n> [driver-engine]  -- rebuild h2 against /repo, run, judge, summarise
set -e
export GOFLAGS=-mod=mod GOPROXY=off GOSUMDB=off GOTOOLCHAIN=local
cd /verif/harness && go1.26 test -tags verif -c -o /verif/build/h2.test ./h2
/verif/build/h2.test -test.run '^TestEngine$' -engine $1 -seed $2 -n $3 -out /verif/build/$1.txt > /dev/null || true
/verif/lean/.lake/build/bin/rvdriver ${4:-$1} < /verif/build/$1.txt > /verif/build/$1.verdicts
sed 's/@.*//; s/model=.*//' /verif/build/$1.verdicts | sort | uniq -c | sort -rn | head -${5:-20}
