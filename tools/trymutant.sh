#!/bin/bash
# usage: trymutant.sh <patch.diff> <Cnn>...   apply a seeded change to /repo, run the given checks, undo
patch=$1; shift
cd /repo
if ! git apply --check "$patch" 2>/dev/null; then
  # the fix commits moved some context: retry with less context, else give up
  if ! git apply --check -C1 "$patch" 2>/dev/null; then echo "PATCH DOES NOT APPLY: $patch"; exit 3; fi
  git apply -C1 "$patch"
else
  git apply "$patch"
fi
go build ./... || { echo "DOES NOT BUILD"; git checkout -- .; exit 4; }
git diff --stat | tail -1
cd /verif
for p in "$@"; do ./check $p quick 2>&1 | grep -E "VIOLATION|quick:" | cut -c1-200; done
git -C /repo checkout -- . ; git -C /repo status --short | head -3
# the evidence files were just rewritten by runs against a changed tree: put the committed ones back
git -C /verif checkout -- evidence 2>/dev/null
