#!/bin/bash
# usage: showu.sh <pairs> <verdicts> <pattern> [nth]  -- print the flagged event and the one before, compactly
f=$1; v=$2; pat="$3"; N=$(grep -n "$pat" $v | sed -n "${4:-1}p" | cut -d: -f1); V=$(sed -n ${N}p $v); K=${V##*@}; echo "=== case $((N-1)): $V"
python3 - "$f" $((N-1)) $K <<'PY'
import sys
sys.path.insert(0,'/verif/tools')
import showcase, io, contextlib
f,idx,k=sys.argv[1],int(sys.argv[2]),int(sys.argv[3])
L=open(f).read().split("\n"); case=L[2*idx]; impl=L[2*idx+1]
t=case.split()
if t[0]=="U":
    r=showcase.R(t); r.n(); n=r.nat(); H=[r.entry() for _ in range(n)]; assert r.n()=="HL"; m=r.nat(); hl=[r.nat() for _ in range(m)]
    print("H =", " ".join(H)); print("hlen at events:", hl)
    case=" ".join(t[r.i:])
buf=io.StringIO()
with contextlib.redirect_stdout(buf): showcase.show(case,impl)
out=buf.getvalue().split("\n")
p=False
for line in out:
    if line.startswith("config") or line.startswith("initial"): print(line[:400]); continue
    if line.startswith(" ["):
        n=int(line[2:line.index("]")]); p = n in (k-1,k)
    if p: print(line[:420])
PY
