#!/bin/bash
# usage: confirm_mutant.sh <seed-id> <dir with patch.diff + demo_test.go> <property> [demo-run-regexp]
# Confirms a seeded change in a scratch worktree of /repo HEAD: applies, builds, demo fails with it,
# the repository's suite still passes with it, demo passes without it.  Writes /verif/seeded/<id>/.
id=$1; src=$2; prop=$3; rx=${4:-VerifDemo}
wt=/tmp/cm/$id; out=/verif/seeded/$id
mkdir -p /tmp/cm $out
git -C /repo worktree add --detach $wt HEAD -q || exit 1
cd $wt
if git apply --check $src/patch.diff 2>/dev/null; then git apply $src/patch.diff; else git apply -C1 $src/patch.diff || { echo "patch does not apply" > $out/confirm.log; git -C /repo worktree remove --force $wt; exit 2; }; fi
git diff > $out/patch.diff
demo=$(ls $src/demo*_test.go $src/demo_test.go 2>/dev/null | head -1)
cp $demo $out/demo_test.go
cp $src/notes.md $out/notes.md 2>/dev/null
cp $demo $wt/verif_demo_${id//-/_}_test.go
{
echo "== build with patch"; go build -mod=mod ./... && echo build-ok
echo "== demo with patch (expect FAIL)"; go test -mod=mod -vet=off -count=1 -run "$rx" . 2>&1 | tail -3
echo "== suite with patch"; rm $wt/verif_demo_*_test.go; go test -mod=mod -vet=off -count=1 -timeout 25m . 2>&1 | grep -E "^(--- FAIL|FAIL|ok|panic)" | head -20
echo "== demo without patch (expect ok)"; git checkout -q -- . ; cp $demo $wt/verif_demo_${id//-/_}_test.go; go test -mod=mod -vet=off -count=1 -run "$rx" . 2>&1 | tail -3
} > $out/confirm.log 2>&1
cd /; git -C /repo worktree remove --force $wt
echo "confirmed $id: $(grep -c . $out/confirm.log) log lines"
