#!/bin/bash
# usage: sweep.sh <seed>...   run every claimed quick check with each seed; print alarms
cd /verif
for s in "$@"; do
  for p in $(python3 -c "import json;print(' '.join(c['property_id'] for c in json.load(open('MANIFEST.json'))['checks']))"); do
    out=$(VERIF_SEED=$s ./check $p quick 2>&1)
    echo "seed=$s $(echo "$out" | tail -1)"
    echo "$out" | grep VIOLATION
  done
done
