#!/usr/bin/env python3
"""Pretty-print one `handlers` case (case line + impl line) in readable form."""
import sys
def toks(s): return s.split()
class R:
    def __init__(s,t): s.t=t; s.i=0
    def n(s): v=s.t[s.i]; s.i+=1; return v
    def nat(s): return int(s.n())
    def cfg(s):
        k=s.nat(); out=[]
        for _ in range(k):
            su,i,a=s.nat(),s.nat(),s.nat(); out.append("%s%d"%("VNS"[su],i))
        return "{"+",".join(out)+"}"
    def entry(s):
        i,t,k,d=s.nat(),s.nat(),s.nat(),s.nat(); c=s.cfg()
        return "(%d,t%d,%s%s)"%(i,t,["cmd","noop","add","rm","bar","cfg"][k], (":"+str(d)) if k!=5 else c)
    def snap(s):
        i,t,ci=s.nat(),s.nat(),s.nat(); c=s.cfg(); n=s.nat(); d=[s.nat() for _ in range(n)]
        return "snap(%d,t%d,cfg@%d%s,data=%s)"%(i,t,ci,c,d)
    def durable(s):
        ct,vt,pr,c=s.nat(),s.nat(),s.nat(),s.nat(); lo,hi=s.nat(),s.nat(); n=s.nat(); es=[s.entry() for _ in range(n)]
        sg=s.nat(); k=s.nat(); sn=[s.snap() for _ in range(k)]
        return "term=%d vote=(%d,%s) low/high=%d/%d log=%s staged=%d snaps=%s"%(ct,vt,c if pr else "-",lo,hi," ".join(es),sg,sn)
    def event(s):
        k=s.n()
        if k=="V":
            a=[s.nat() for _ in range(8)]; return "RequestVote cand=%d id=%d term=%d last=(%d,t%d) transfer=%d fail@%d crash@%d"%tuple(a)
        if k=="P":
            a=[s.nat() for _ in range(5)]; return "PreVote cand=%d id=%d term=%d last=(%d,t%d)"%tuple(a)
        if k=="A":
            a=[s.nat() for _ in range(6)]; n=s.nat(); es=[s.entry() for _ in range(n)]; f,c=s.nat(),s.nat()
            return "AppendEntries leader=%d id=%d term=%d prev=(%d,t%d) commit=%d"%tuple(a)+" entries="+" ".join(es)+" fail@%d crash@%d"%(f,c)
        if k=="I":
            a=[s.nat() for _ in range(6)]; c=s.cfg(); n=s.nat(); d=[s.nat() for _ in range(n)]; ok,f,cr=s.nat(),s.nat(),s.nat()
            return "InstallSnapshot leader=%d id=%d term=%d last=(%d,t%d) cfg@%d"%tuple(a)+c+" data=%s sizeOk=%d fail@%d crash@%d"%(d,ok,f,cr)
        if k=="S":
            a=[s.nat() for _ in range(3)]; return "SetRole %s leader=%d/%d"%(["F","C","L"][a[0]],a[1],a[2])
        return {"T":"TimeoutNow","R":"Restart"}[k]
    def obs(s):
        k=s.n()
        if k=="X": return "DEAD "+s.durable()
        p=s.nat(); r=s.n()
        resp={"v":2,"p":2,"a":4,"i":3,"t":0,"n":0}[r]; rv=[s.nat() for _ in range(resp)]
        assert s.n()=="W"; n=s.nat(); ws=[(s.n(),s.nat(),s.nat()) for _ in range(n)]
        assert s.n()=="V"
        v=[s.nat() for _ in range(9)]; lc=s.cfg(); ci=s.nat(); cc=s.cfg(); ld,lid,tr=s.nat(),s.nat(),s.nat()
        assert s.n()=="D"; d=s.durable()
        assert s.n()=="F"; n=s.nat(); f=[]
        for _ in range(n):
            c=s.n()
            if c=="a": f.append("apply(%d,t%d,%d)"%(s.nat(),s.nat(),s.nat()))
            else:
                m=s.nat(); f.append("restore%s"%[s.nat() for _ in range(m)])
        return "%sresp=%s%s writes=%s\n      vol: term=%d role=%s lastLog=(%d,t%d) snap=(%d,t%d) commit=%d applied=%d latest@%d%s committed@%d%s leader=%d/%d transfer=%d\n      dur: %s\n      fsm: %s"%(
            "PANIC " if p else "", r, rv, ["%s %d %d"%w for w in ws], v[0],"FCL"[v[1]],v[2],v[3],v[4],v[5],v[6],v[7],v[8],lc,ci,cc,ld,lid,tr,d,f)
def show(case,impl,verdict=""):
    r=R(toks(case)); assert r.n()=="CF"; cf=[r.nat() for _ in range(4)]
    print("config: monotonic=%d restoreCommitted=%d trailing=%d maxAE=%d   %s"%(*cf,verdict))
    assert r.n()=="DU"; print("initial:", r.durable()); assert r.n()=="EV"; n=r.nat(); evs=[r.event() for _ in range(n)]
    o=R(toks(impl)); k=o.nat(); obs=[o.obs() for _ in range(k)]
    print("  boot ->", obs[0])
    for i,e in enumerate(evs):
        print(" [%d] %s\n   -> %s"%(i,e,obs[i+1] if i+1<len(obs) else "?"))
if __name__=="__main__":
    f,idx=sys.argv[1],int(sys.argv[2]); L=open(f).read().split("\n"); show(L[2*idx],L[2*idx+1])
